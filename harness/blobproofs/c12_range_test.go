package share

// C12 (c): share-range proofs. For every range [start,end) inside one namespace of a block the
// real share module (module.GetRange -> newGetRangeResult) must produce a result whose shares are
// exactly ODS[start:end) and that verifies against the data root; every tampered result that
// Verify accepts must state something true about the real square; Verify never panics.

import (
	"bytes"
	"context"
	"encoding/json"
	"fmt"
	"sort"
	"strings"

	"github.com/celestiaorg/celestia-app/v9/pkg/appconsts"
	"github.com/celestiaorg/go-square/v4/inclusion"
	libshare "github.com/celestiaorg/go-square/v4/share"
	"github.com/celestiaorg/nmt"
	coremerkle "github.com/cometbft/cometbft/crypto/merkle"
	tmbytes "github.com/cometbft/cometbft/libs/bytes"
	tmproto "github.com/cometbft/cometbft/proto/tendermint/types"
	coretypes "github.com/cometbft/cometbft/types"

	"github.com/celestiaorg/celestia-node/share/shwap"
	shwappb "github.com/celestiaorg/celestia-node/share/shwap/pb"
)

type vRun struct{ From, To int } // maximal same-namespace run [From,To) of the ODS

func (b *vBlock) runs() []vRun {
	var out []vRun
	for i := 0; i < len(b.ODS); {
		j := i + 1
		for j < len(b.ODS) && b.ODS[j].Namespace().Equals(b.ODS[i].Namespace()) {
			j++
		}
		out = append(out, vRun{i, j})
		i = j
	}
	return out
}

const vFullRangeRun = 24 // runs up to this length get every [start,end); longer ones the boundary classes

// rangesOf lists the ranges explored inside a run.
func (b *vBlock) rangesOf(r vRun) (out [][2]int, full bool) {
	n := r.To - r.From
	if n <= vFullRangeRun {
		for s := r.From; s < r.To; s++ {
			for e := s + 1; e <= r.To; e++ {
				out = append(out, [2]int{s, e})
			}
		}
		return out, true
	}
	// boundary classes: the run's ends (+-1), its first and last row boundary (+-1), blob starts
	pts := map[int]bool{}
	add := func(p int, ds ...int) {
		for _, d := range ds {
			if q := p + d; q >= r.From && q <= r.To {
				pts[q] = true
			}
		}
	}
	add(r.From, 0, 1)
	add(r.To, -1, 0)
	first := (r.From/b.W + 1) * b.W
	last := ((r.To - 1) / b.W) * b.W
	if first < r.To {
		add(first, -1, 0, 1)
	}
	if last > r.From {
		add(last, 0, 1)
	}
	for _, ref := range b.Refs {
		if ref.Start >= r.From && ref.Start < r.To {
			add(ref.Start, 0)
		}
	}
	var ps []int
	for p := range pts {
		ps = append(ps, p)
	}
	sort.Ints(ps)
	for i, s := range ps {
		for _, e := range ps[i+1:] {
			out = append(out, [2]int{s, e})
		}
	}
	return out, false
}

// vRangeClaimTrue is the ground truth for an ACCEPTED range result.
func vRangeClaimTrue(b *vBlock, r *GetRangeResult, root []byte) (bool, string) {
	if !bytes.Equal(root, b.DataRoot) {
		return false, "the root is not the block's data root"
	}
	if r.Proof == nil {
		return false, "no proof"
	}
	p := r.Proof
	if len(r.Shares) != len(p.Data) {
		return false, fmt.Sprintf("the result exposes %d shares but the proof is about %d", len(r.Shares), len(p.Data))
	}
	for i, s := range r.Shares {
		if !bytes.Equal(s.ToBytes(), p.Data[i]) {
			return false, fmt.Sprintf("exposed share %d differs from the proven share", i)
		}
	}
	if len(p.ShareProofs) != len(p.RowProof.RowRoots) || len(p.RowProof.Proofs) != len(p.RowProof.RowRoots) || len(p.ShareProofs) == 0 {
		return false, "per-row lists differ in length (or are empty)"
	}
	ns := append([]byte{byte(p.NamespaceVersion)}, p.NamespaceID...)
	if p.NamespaceVersion > 255 {
		return false, "namespace version out of range"
	}
	cursor := 0
	for i, sp := range p.ShareProofs {
		if sp == nil || p.RowProof.Proofs[i] == nil {
			return false, "nil per-row proof"
		}
		if sp.Start < 0 || sp.End <= sp.Start || int(sp.End) > 2*b.W {
			return false, "a share proof has no valid range inside a row"
		}
		n := int(sp.End - sp.Start)
		if cursor+n > len(p.Data) {
			return false, "more leaves claimed than shares supplied"
		}
		// the authenticated name of the row is its root: the data must be what the real square
		// holds, at the claimed columns, in a row with that root
		why := fmt.Sprintf("row root #%d is not a row root of the square", i)
		for row, rr := range b.Roots.RowRoots {
			if !bytes.Equal(rr, p.RowProof.RowRoots[i]) {
				continue
			}
			why = ""
			for k := 0; k < n && why == ""; k++ {
				col := int(sp.Start) + k
				cell := b.EDS.GetCell(uint(row), uint(col))
				want := libshare.ParitySharesNamespace.Bytes()
				if row < b.W && col < b.W {
					want = cell[:libshare.NamespaceSize]
				}
				switch {
				case !bytes.Equal(cell, p.Data[cursor+k]):
					why = fmt.Sprintf("share %d is not the share at row %d col %d of the square", cursor+k, row, col)
				case !bytes.Equal(want, ns):
					why = fmt.Sprintf("share %d is not of the claimed namespace", cursor+k)
				}
			}
			if why == "" {
				break
			}
		}
		if why != "" {
			return false, why
		}
		cursor += n
	}
	if cursor != len(p.Data) {
		return false, fmt.Sprintf("%d shares supplied, %d located in the square", len(p.Data), cursor)
	}
	return true, ""
}

type vRangeCase struct {
	Op, Detail string
	R          *GetRangeResult
	Root       []byte
}

func vRangeCases(h *GetRangeResult, root []byte, donor *GetRangeResult, otherRoot []byte, foreign libshare.Share) []vRangeCase {
	var out []vRangeCase
	add := func(op, detail string, r *GetRangeResult, rt []byte) {
		out = append(out, vRangeCase{op, detail, r, rt})
	}
	mut := func(op, detail string, f func(r *GetRangeResult)) {
		r := vCloneRange(h)
		f(r)
		add(op, detail, r, root)
	}
	add("root.other-block", "", vCloneRange(h), otherRoot)
	for _, m := range vBytesMuts(root) {
		add("root."+m.Name, "", vCloneRange(h), m.V)
	}
	add("root.nil", "", vCloneRange(h), nil)
	mut("proof.nil", "", func(r *GetRangeResult) { r.Proof = nil })

	cloneShare := func(s libshare.Share) libshare.Share { return s }
	var dShares []libshare.Share
	var dData [][]byte
	var dSP []*tmproto.NMTProof
	var dRR [][]byte
	var dRP []*coremerkle.Proof
	if donor != nil {
		dShares, dData, dSP, dRP = donor.Shares, donor.Proof.Data, donor.Proof.ShareProofs, donor.Proof.RowProof.Proofs
		for _, x := range donor.Proof.RowProof.RowRoots {
			dRR = append(dRR, x)
		}
	}
	dShares = append(append([]libshare.Share{}, dShares...), foreign)
	// exposed shares only ("different shares")
	for _, m := range vListMuts(h.Shares, dShares, cloneShare) {
		v := m.V
		mut("shares."+m.Name, fmt.Sprint(m.Idx), func(r *GetRangeResult) { r.Shares = v })
	}
	for _, i := range vEnds(len(h.Shares)) {
		raw := vCloneB(h.Shares[i].ToBytes())
		raw[len(raw)-1] ^= 1
		if s, err := libshare.NewShare(raw); err == nil {
			mut("shares.elem-flip-last-byte", fmt.Sprint(i), func(r *GetRangeResult) { r.Shares[i] = s })
		}
	}
	// proven data only
	for _, m := range vBBMuts(h.Proof.Data, dData) {
		v := m.V
		mut("data."+m.Name, fmt.Sprint(m.Idx), func(r *GetRangeResult) { r.Proof.Data = v })
	}
	// both, consistently
	if n := len(h.Shares); n > 1 {
		mut("shares+data.drop-last", "", func(r *GetRangeResult) { r.Shares = r.Shares[:n-1]; r.Proof.Data = r.Proof.Data[:n-1] })
		mut("shares+data.drop-first", "", func(r *GetRangeResult) { r.Shares = r.Shares[1:]; r.Proof.Data = r.Proof.Data[1:] })
		mut("shares+data+range.narrow-end", "", func(r *GetRangeResult) {
			r.Shares = r.Shares[:n-1]
			r.Proof.Data = r.Proof.Data[:n-1]
			r.Proof.ShareProofs[len(r.Proof.ShareProofs)-1].End--
		})
		mut("shares+data.swap-first-two", "", func(r *GetRangeResult) {
			r.Shares[0], r.Shares[1] = r.Shares[1], r.Shares[0]
			r.Proof.Data[0], r.Proof.Data[1] = r.Proof.Data[1], r.Proof.Data[0]
		})
	}
	mut("shares+data.append-foreign", "", func(r *GetRangeResult) {
		r.Shares = append(r.Shares, foreign)
		r.Proof.Data = append(r.Proof.Data, foreign.ToBytes())
	})
	mut("shares+data+range.widen-end", "", func(r *GetRangeResult) {
		r.Shares = append(r.Shares, foreign)
		r.Proof.Data = append(r.Proof.Data, foreign.ToBytes())
		r.Proof.ShareProofs[len(r.Proof.ShareProofs)-1].End++
	})
	// share proofs
	cloneSP := func(q *tmproto.NMTProof) *tmproto.NMTProof {
		if q == nil {
			return nil
		}
		return vCloneNMTProtos([]*tmproto.NMTProof{q})[0]
	}
	for _, m := range vListMuts(h.Proof.ShareProofs, dSP, cloneSP) {
		v := m.V
		mut("share-proofs."+m.Name, fmt.Sprint(m.Idx), func(r *GetRangeResult) { r.Proof.ShareProofs = v })
	}
	for _, i := range vEnds(len(h.Proof.ShareProofs)) {
		q := h.Proof.ShareProofs[i]
		for _, m := range vRangeMuts(int(q.Start), int(q.End)) {
			s, e := int32(m.Start), int32(m.End)
			mut("share-proofs.range-"+m.Name, fmt.Sprint(i), func(r *GetRangeResult) {
				r.Proof.ShareProofs[i].Start, r.Proof.ShareProofs[i].End = s, e
			})
		}
		for _, m := range vBBMuts(q.Nodes, nil) {
			v := m.V
			mut("share-proofs.nodes-"+m.Name, fmt.Sprintf("%d/%d", i, m.Idx), func(r *GetRangeResult) { r.Proof.ShareProofs[i].Nodes = v })
		}
		mut("share-proofs.leafhash-set", fmt.Sprint(i), func(r *GetRangeResult) { r.Proof.ShareProofs[i].LeafHash = bytes.Repeat([]byte{7}, 90) })
	}
	// row roots
	var hRR [][]byte
	for _, x := range h.Proof.RowProof.RowRoots {
		hRR = append(hRR, x)
	}
	for _, m := range vBBMuts(hRR, dRR) {
		v := make([]tmbytes.HexBytes, len(m.V))
		for i := range m.V {
			v[i] = m.V[i]
		}
		if m.V == nil {
			v = nil
		}
		mut("row-roots."+m.Name, fmt.Sprint(m.Idx), func(r *GetRangeResult) { r.Proof.RowProof.RowRoots = v })
	}
	// row proofs
	cloneRP := func(q *coremerkle.Proof) *coremerkle.Proof {
		if q == nil {
			return nil
		}
		return vCloneCoreProofs([]*coremerkle.Proof{q})[0]
	}
	for _, m := range vListMuts(h.Proof.RowProof.Proofs, dRP, cloneRP) {
		v := m.V
		mut("row-proofs."+m.Name, fmt.Sprint(m.Idx), func(r *GetRangeResult) { r.Proof.RowProof.Proofs = v })
	}
	for _, i := range vEnds(len(h.Proof.RowProof.Proofs)) {
		q := h.Proof.RowProof.Proofs[i]
		ent := func(name string, f func(x *coremerkle.Proof)) {
			mut("row-proofs.entry-"+name, fmt.Sprint(i), func(r *GetRangeResult) { f(r.Proof.RowProof.Proofs[i]) })
		}
		ent("index+1", func(x *coremerkle.Proof) { x.Index++ })
		ent("index-1", func(x *coremerkle.Proof) { x.Index-- })
		ent("index=-1", func(x *coremerkle.Proof) { x.Index = -1 })
		ent("total+1", func(x *coremerkle.Proof) { x.Total++ })
		ent("total-1", func(x *coremerkle.Proof) { x.Total-- })
		ent("total=0", func(x *coremerkle.Proof) { x.Total = 0 })
		ent("total=-1", func(x *coremerkle.Proof) { x.Total = -1 })
		ent("leafhash-nil", func(x *coremerkle.Proof) { x.LeafHash = nil })
		for _, m := range vBytesMuts(q.LeafHash) {
			v := m.V
			ent("leafhash-"+m.Name, func(x *coremerkle.Proof) { x.LeafHash = v })
		}
		for _, m := range vBBMuts(q.Aunts, nil) {
			v := m.V
			ent("aunts-"+m.Name, func(x *coremerkle.Proof) { x.Aunts = v })
		}
	}
	// namespace and row span
	mut("namespace.other-id", "", func(r *GetRangeResult) { r.Proof.NamespaceID = vAbsentNS[3].ID() })
	mut("namespace.id-nil", "", func(r *GetRangeResult) { r.Proof.NamespaceID = nil })
	mut("namespace.version+1", "", func(r *GetRangeResult) { r.Proof.NamespaceVersion++ })
	mut("namespace.version+256", "", func(r *GetRangeResult) { r.Proof.NamespaceVersion += 256 })
	mut("row-span.end+1", "", func(r *GetRangeResult) { r.Proof.RowProof.EndRow++ })
	mut("row-span.start+1", "", func(r *GetRangeResult) { r.Proof.RowProof.StartRow++ })
	mut("row-span.max", "", func(r *GetRangeResult) { r.Proof.RowProof.StartRow, r.Proof.RowProof.EndRow = 0, ^uint32(0) })
	mut("label.row-span-shift", "", func(r *GetRangeResult) { r.Proof.RowProof.StartRow++; r.Proof.RowProof.EndRow++ })
	return append(out, vRangeDegenerate(h, root, otherRoot)...)
}

// vRangeDegenerate: results whose lengths and range fields make every verifier loop run zero
// times (everything emptied, wrapped row span), cancelling / empty / inverted share-proof ranges
// with the data trimmed to the matching (zero) length, wrapped spans with the per-row components
// trimmed to the matching length; each against the real root, another block's root and two
// unrelated roots.
func vRangeDegenerate(h *GetRangeResult, root, otherRoot []byte) []vRangeCase {
	var out []vRangeCase
	roots := append([][]byte{root, otherRoot}, vUnrelatedRoots...)
	emit := func(op, detail string, r *GetRangeResult) {
		for ri, rt := range roots {
			out = append(out, vRangeCase{op, fmt.Sprintf("%s root#%d", detail, ri), vCloneRange(r), rt})
		}
	}
	empty := func(nonNil bool) *GetRangeResult {
		r := &GetRangeResult{Proof: &coretypes.ShareProof{NamespaceID: vCloneB(h.Proof.NamespaceID), NamespaceVersion: h.Proof.NamespaceVersion}}
		if nonNil {
			r.Shares = []libshare.Share{}
			r.Proof.Data = [][]byte{}
			r.Proof.ShareProofs = []*tmproto.NMTProof{}
			r.Proof.RowProof.RowRoots = []tmbytes.HexBytes{}
			r.Proof.RowProof.Proofs = []*coremerkle.Proof{}
		}
		return r
	}
	// (1) everything emptied, every wrapped span
	for _, nonNil := range []bool{false, true} {
		for _, sp := range append(vWrapSpans(0), [2]uint32{0, 0}) {
			r := empty(nonNil)
			r.Proof.RowProof.StartRow, r.Proof.RowProof.EndRow = sp[0], sp[1]
			emit("degenerate.all-emptied", fmt.Sprintf("non-nil=%v span=%d..%d", nonNil, sp[0], sp[1]), r)
			// the honest shares exposed next to an emptied proof
			r2 := vCloneRange(r)
			r2.Shares = append([]libshare.Share{}, h.Shares...)
			emit("degenerate.proof-emptied-shares-kept", fmt.Sprintf("non-nil=%v span=%d..%d", nonNil, sp[0], sp[1]), r2)
		}
	}
	// (1b) shares and data emptied, per-row parts kept but with ranges that prove nothing
	for _, rg := range []struct {
		name string
		f    func(q *tmproto.NMTProof, i int)
	}{
		{"empty-ranges", func(q *tmproto.NMTProof, _ int) { q.End = q.Start }},
		{"inverted-ranges", func(q *tmproto.NMTProof, _ int) { q.Start, q.End = q.End, q.Start }},
		{"start-past-end-by-one", func(q *tmproto.NMTProof, _ int) { q.Start = q.End + 1 }},
		{"zero-zero", func(q *tmproto.NMTProof, _ int) { q.Start, q.End = 0, 0 }},
		{"negative", func(q *tmproto.NMTProof, _ int) { q.Start, q.End = -2, -2 }},
		{"max-int32", func(q *tmproto.NMTProof, _ int) { q.Start, q.End = 1<<31-1, 1<<31-1 }},
	} {
		for _, nodes := range []bool{true, false} {
			r := vCloneRange(h)
			r.Shares, r.Proof.Data = nil, nil
			for i, q := range r.Proof.ShareProofs {
				rg.f(q, i)
				if !nodes {
					q.Nodes = nil
				}
			}
			emit("degenerate.data-emptied-"+rg.name, fmt.Sprintf("nodes-kept=%v", nodes), r)
		}
	}
	// two entries for the same row whose lengths cancel out (-1 + 1), one share of data less
	{
		r := vCloneRange(h)
		sp := r.Proof.ShareProofs
		rr := r.Proof.RowProof
		r.Proof.ShareProofs = append(sp, &tmproto.NMTProof{Start: sp[len(sp)-1].End, End: sp[len(sp)-1].End - 1})
		r.Proof.RowProof.RowRoots = append(rr.RowRoots, vCloneB(rr.RowRoots[len(rr.RowRoots)-1]))
		r.Proof.RowProof.Proofs = append(rr.Proofs, vCloneCoreProofs(rr.Proofs[len(rr.Proofs)-1:])...)
		r.Proof.RowProof.EndRow++
		if n := len(r.Shares); n > 0 {
			r.Shares, r.Proof.Data = r.Shares[:n-1], r.Proof.Data[:n-1]
		}
		emit("degenerate.cancelling-ranges-data-trimmed", "", r)
		r2 := vCloneRange(h)
		for _, q := range r2.Proof.ShareProofs {
			q.Start, q.End = q.End, q.Start
		}
		r2.Proof.ShareProofs = append(r2.Proof.ShareProofs, vCloneNMTProtos(h.Proof.ShareProofs)...)
		r2.Proof.RowProof.RowRoots = append(r2.Proof.RowProof.RowRoots, r2.Proof.RowProof.RowRoots...)
		r2.Proof.RowProof.Proofs = append(r2.Proof.RowProof.Proofs, vCloneCoreProofs(r2.Proof.RowProof.Proofs)...)
		r2.Proof.RowProof.EndRow += uint32(len(h.Proof.ShareProofs))
		r2.Shares, r2.Proof.Data = nil, nil
		emit("degenerate.cancelling-ranges-data-emptied", "", r2)
	}
	// (2) wrapped spans with the per-row components trimmed to a matching length k in {1, n-1, n}
	n := len(h.Proof.ShareProofs)
	seenK := map[int]bool{}
	for _, k := range []int{1, n - 1, n} {
		if k < 1 || seenK[k] {
			continue
		}
		seenK[k] = true
		r := vCloneRange(h)
		keep := 0
		for _, q := range r.Proof.ShareProofs[:k] {
			keep += int(q.End - q.Start)
		}
		r.Proof.ShareProofs = r.Proof.ShareProofs[:k]
		r.Proof.RowProof.RowRoots = r.Proof.RowProof.RowRoots[:k]
		r.Proof.RowProof.Proofs = r.Proof.RowProof.Proofs[:k]
		if keep <= len(r.Shares) {
			r.Shares, r.Proof.Data = r.Shares[:keep], r.Proof.Data[:keep]
		}
		for _, sp := range vWrapSpans(uint32(k))[1:3] {
			q := vCloneRange(r)
			q.Proof.RowProof.StartRow, q.Proof.RowProof.EndRow = sp[0], sp[1]
			emit("degenerate.wrapped-span-trimmed", fmt.Sprintf("rows=%d/%d span=%d..%d", k, n, sp[0], sp[1]), q)
		}
	}
	return out
}

// rangeClass names the shape of a range (used to pick the representatives that get tampered with).
func (b *vBlock) rangeClass(s, e int) string {
	r0, r1 := s/b.W, (e-1)/b.W
	switch {
	case e-s == 1:
		return "single-share"
	case r0 == r1 && s%b.W == 0 && e%b.W == 0:
		return "one-full-row"
	case r0 == r1:
		return "within-row"
	case s%b.W == 0 && e%b.W == 0:
		return "full-rows"
	case s%b.W == 0:
		return "rows-partial-last"
	case e%b.W == 0:
		return "rows-partial-first"
	default:
		return "rows-partial-both"
	}
}

// rangeKey: the class of a range for choosing which results get the tamper operators: ODS
// width, shape, rows spanned (capped at 3) and kind of namespace.
func (b *vBlock) rangeKey(s, e int) string {
	rows := (e-1)/b.W - s/b.W + 1
	if rows > 3 {
		rows = 3
	}
	ns := b.ODS[s].Namespace()
	kind := "user"
	switch {
	case ns.IsTx():
		kind = "tx"
	case ns.IsPayForBlob():
		kind = "pfb"
	case ns.IsTailPadding():
		kind = "tail"
	case ns.IsReserved():
		kind = "reserved"
	}
	return fmt.Sprintf("W%d/%s/rows%d/%s", b.W, b.rangeClass(s, e), rows, kind)
}

// blobClass: the class of a blob for choosing which proofs of WIDE blocks get the tamper
// operators (every blob of a small block gets them).
func (b *vBlock) blobClass(r *vRefBlob) string {
	rows := (r.Start+r.N-1)/b.W - r.Start/b.W + 1
	if rows > 3 {
		rows = 3
	}
	first := true
	for _, o := range b.Refs {
		if o.NS.Equals(r.NS) && o.Start < r.Start {
			first = false
		}
	}
	pad := r.Start > 0 && b.ODS[r.Start-1].IsPadding()
	sw, _ := inclusion.SubTreeWidth(r.N, appconsts.SubtreeRootThreshold)
	return fmt.Sprintf("W%d/rows%d/first-in-ns=%v/after-padding=%v/subtree-width%d/row-start=%v", b.W, rows, first, pad, sw, r.Start%b.W == 0)
}

func (c *vC12) checkRanges(b *vBlock, otherRoot []byte, owns func(key string) bool) {
	ctx := context.Background()
	g := vNewGetter(b)
	m := module{getter: g, hs: &vHeaderMod{g: g}}
	rp := func(op string, s, e int) any {
		return map[string]any{"check": "C12/range", "spec": b.Spec.String(), "op": op, "range": []int{s, e}, "layout": b.layout()}
	}
	// invalid requests are refused without a panic
	for _, q := range [][2]int{{-1, 1}, {0, 0}, {2, 1}, {0, len(b.ODS) + 1}, {len(b.ODS), len(b.ODS) + 1}} {
		var err error
		var res *GetRangeResult
		if pn := vCatch(func() { res, err = m.GetRange(ctx, b.Height, q[0], q[1]) }); pn != "" {
			c.st.out("range:invalid-request-panic")
			c.sink("C12/GetRange/panic/invalid-request", fmt.Sprintf("GetRange(%d,%d) panicked: %s; block %q (ODS of %d shares)", q[0], q[1], pn, b.Spec, len(b.ODS)), rp("invalid-request", q[0], q[1]))
		} else if err == nil && res != nil {
			c.st.out("range:invalid-request-answered")
			c.sink("C12/GetRange/answers-invalid-request", fmt.Sprintf("GetRange(%d,%d) returned a result; block %q (ODS of %d shares)", q[0], q[1], b.Spec, len(b.ODS)), rp("invalid-request", q[0], q[1]))
		} else {
			c.st.out("range:invalid-request-refused")
		}
	}
	var donor *GetRangeResult
	seenClass := map[string]bool{}
	foreignDone := map[string]bool{} // first range of every shape of THIS block gets the foreign containers
	for _, run := range b.runs() {
		ranges, full := b.rangesOf(run)
		if full {
			c.st.hist("range_runs", "all-ranges")
		} else {
			c.st.hist("range_runs", "boundary-classes")
		}
		for _, se := range ranges {
			if c.expired() {
				return
			}
			s, e := se[0], se[1]
			var res *GetRangeResult
			var err error
			if pn := vCatch(func() { res, err = m.GetRange(ctx, b.Height, s, e) }); pn != "" {
				c.st.out("range:produce-panic")
				c.sink("C12/GetRange/panic", fmt.Sprintf("GetRange(%d,%d) panicked: %s; block %q layout %s", s, e, pn, b.Spec, b.layout()), rp("produce", s, e))
				continue
			}
			if err != nil || res == nil {
				c.st.out("range:produce-error")
				c.sink("C12/GetRange/error", fmt.Sprintf("GetRange(%d,%d) inside one namespace failed: %v; block %q layout %s", s, e, err, b.Spec, b.layout()), rp("produce", s, e))
				continue
			}
			c.caseDone(vFPRangeCase(b.FP, b.DataRoot, res), true)
			// the shares are exactly ODS[s:e)
			same := len(res.Shares) == e-s
			for i := 0; same && i < e-s; i++ {
				same = bytes.Equal(res.Shares[i].ToBytes(), b.ODS[s+i].ToBytes())
			}
			if !same {
				c.st.out("range:wrong-shares")
				c.sink("C12/GetRange/wrong-shares", fmt.Sprintf("GetRange(%d,%d) returned %d shares that are not ODS[%d:%d); block %q layout %s", s, e, len(res.Shares), s, e, b.Spec, b.layout()), rp("produce", s, e))
				continue
			}
			var verr error
			if pn := vCatch(func() { verr = vCloneRange(res).Verify(b.DataRoot) }); pn != "" {
				c.sink("C12/GetRangeResult.Verify/panic/op=honest", fmt.Sprintf("Verify of the node's own result for [%d,%d) panicked: %s; block %q", s, e, pn, b.Spec), rp("honest", s, e))
				continue
			}
			if verr != nil {
				c.st.out("range:honest-rejected")
				c.sink("C12/GetRangeResult.Verify/honest-rejected", fmt.Sprintf("the node's own result for [%d,%d) does not verify: %v; block %q layout %s", s, e, verr, b.Spec, b.layout()), rp("honest", s, e))
				continue
			}
			c.st.out("range:honest-accepted")
			if ok, why := vRangeClaimTrue(b, res, b.DataRoot); !ok {
				c.sink("C12/GetRange/proof-not-about-the-range", fmt.Sprintf("the node's own result for [%d,%d) verifies but %s; block %q", s, e, why, b.Spec), rp("honest", s, e))
				continue
			}
			// the proven positions are the requested ones
			if int(res.Proof.RowProof.Proofs[0].Index) != s/b.W || int(res.Proof.ShareProofs[0].Start) != s%b.W {
				c.sink("C12/GetRange/proof-for-another-position", fmt.Sprintf("the result for [%d,%d) proves row %d col %d; block %q", s, e,
					res.Proof.RowProof.Proofs[0].Index, res.Proof.ShareProofs[0].Start, b.Spec), rp("honest", s, e))
			}
			cl := b.rangeKey(s, e)
			c.st.hist("range_shapes", b.rangeClass(s, e))
			if fk := b.rangeClass(s, e); !foreignDone[fk] {
				foreignDone[fk] = true
				c.checkForeignContainers(b, g, s, e)
			}
			if seenClass[cl] || !owns(cl) {
				if donor == nil {
					donor = res
				}
				continue
			}
			seenClass[cl] = true
			// tamper with the first range of every shape in the block
			foreign := b.ODS[(e)%len(b.ODS)]
			if e-s == len(b.ODS) {
				foreign = libshare.TailPaddingShare()
			}
			d := donor
			if d == nil {
				d = res
			}
			exec := func(cs vRangeCase, fp [16]byte) {
				changed := vFPRangeCase(b.FP, cs.Root, cs.R) != vFPRangeCase(b.FP, b.DataRoot, res)
				if !c.caseDone(fp, changed) {
					return
				}
				var verr error
				work := vCloneRange(cs.R)
				if pn := vCatch(func() { verr = work.Verify(cs.Root) }); pn != "" {
					c.st.out("range:panic")
					c.sink(vOpSig("GetRangeResult.Verify", vPanicKind(pn), cs.Op), fmt.Sprintf("Verify panicked (%s) on operator %s[%s] applied to the result for [%d,%d); block %q",
						pn, cs.Op, cs.Detail, s, e, b.Spec), rp(cs.Op, s, e))
					return
				}
				if verr != nil {
					c.st.out("range:rejected")
					kind := "range/rejected"
					if strings.HasPrefix(cs.Op, "degenerate.") {
						kind = "range/degenerate-rejected"
					}
					c.sample(kind, map[string]any{"block": b.Spec.String(), "range": []int{s, e}, "shape": b.rangeKey(s, e), "operator": cs.Op, "at": cs.Detail, "verify": verr.Error()})
					return
				}
				if ok, why := vRangeClaimTrue(b, cs.R, cs.Root); !ok {
					c.st.out("range:accepted-false-claim")
					c.sink(vOpSig("GetRangeResult.Verify", "accepts-false-claim", cs.Op), fmt.Sprintf("Verify accepted operator %s[%s] applied to the result for [%d,%d) although %s; block %q layout %s",
						cs.Op, cs.Detail, s, e, why, b.Spec, b.layout()), rp(cs.Op, s, e))
					return
				}
				c.st.out("range:accepted-true-claim")
				c.st.hist("range_accepted_true_claim_ops", cs.Op)
			}
			for _, cs := range vRangeCases(res, b.DataRoot, d, otherRoot, foreign) {
				fp := vFPRangeCase(b.FP, cs.Root, cs.R)
				exec(cs, fp)
				if !strings.HasPrefix(cs.Op, "degenerate.") {
					continue
				}
				// the same degenerate result through its JSON (wire) form
				c.st.hist("degenerate_cases", "range-result")
				doc, err := json.Marshal(cs.R)
				if err != nil {
					c.st.out("range:degenerate-json-marshal-error")
					continue
				}
				var back GetRangeResult
				var derr error
				if pn := vCatch(func() { derr = json.Unmarshal(doc, &back) }); pn != "" {
					c.sink(vOpSig("GetRangeResult.UnmarshalJSON", vPanicKind(pn), cs.Op), fmt.Sprintf("decoding the JSON form of operator %s[%s] panicked: %s; block %q", cs.Op, cs.Detail, pn, b.Spec), rp(cs.Op, s, e))
					continue
				}
				if derr != nil {
					c.st.out("range:degenerate-json-decode-error")
					continue
				}
				js := cs
				js.R, js.Detail = &back, cs.Detail+" via-json"
				exec(js, newVFPs("range-json-form", fp[:]))
			}
			donor = res
		}
	}
}

// checkForeignContainers feeds newGetRangeResult (the proof construction of share.GetRange) range
// containers that a remote peer could send and that the node ACCEPTS (protobuf round trip, then
// RangeNamespaceData.VerifyInclusion against the row roots, as the getters do) but that are not the
// ones the local accessors build: a spare first-row / last-row proof where the accessor leaves the
// field empty - the row's own correct proof, the proof of the same columns in a neighbouring row,
// or the own proof with one node hash altered (the verifier compares a spare last-row proof of a
// one-row range with nothing). Whenever the container is accepted, the result built from it must
// carry exactly ODS[s:e) and verify against the data root for exactly that position.
func (c *vC12) checkForeignContainers(b *vBlock, g *vGetter, s, e int) {
	ctx := context.Background()
	from, err1 := shwap.SampleCoordsFrom1DIndex(s, b.W)
	to, err2 := shwap.SampleCoordsFrom1DIndex(e-1, b.W)
	if err1 != nil || err2 != nil {
		return
	}
	rowShares := func(r int) []libshare.Share {
		sh, _ := libshare.FromBytes(b.EDS.Row(uint(r)))
		return sh
	}
	alter := func(p *nmt.Proof) *nmt.Proof {
		nodes := vCloneBB(p.Nodes())
		if len(nodes) == 0 {
			return nil
		}
		nodes[len(nodes)-1][len(nodes[len(nodes)-1])-1] ^= 1 // the hash part; the namespace bounds stay
		return vMkNmt(p.Start(), p.End(), nodes, nil, p.IsMaxNamespaceIDIgnored())
	}
	// candidate spare proofs for the columns [c0,c1) of the range's row r
	spares := func(r, c0, c1 int) map[string]*nmt.Proof {
		out := map[string]*nmt.Proof{}
		if own, err := shwap.GenerateSharesProofs(r, c0, c1, b.W, rowShares(r)); err == nil {
			out["own-row"] = own
			if a := alter(own); a != nil {
				out["own-row-node-altered"] = a
			}
		}
		for _, nr := range []int{r + 1} {
			if nr >= 0 && nr < b.W {
				if p, err := shwap.GenerateSharesProofs(nr, c0, c1, b.W, rowShares(nr)); err == nil {
					out[fmt.Sprintf("neighbour-row%+d", nr-r)] = p
				}
			}
		}
		return out
	}
	type variant struct {
		name        string
		first, last *nmt.Proof
		setF, setL  bool
	}
	var vars []variant
	honest, err := g.GetRangeNamespaceData(ctx, b.Hdr, s, e)
	if err != nil {
		return
	}
	lastC0 := 0
	if from.Row == to.Row {
		lastC0 = from.Col
	}
	firstC1 := b.W
	if from.Row == to.Row {
		firstC1 = to.Col + 1
	}
	var names []string
	if honest.LastIncompleteRowProof == nil {
		sp := spares(to.Row, lastC0, to.Col+1)
		for n := range sp {
			names = append(names, n)
		}
		sort.Strings(names)
		for _, n := range names {
			vars = append(vars, variant{name: "spare-last-row-proof/" + n, last: sp[n], setL: true})
		}
	}
	if honest.FirstIncompleteRowProof == nil {
		sp := spares(from.Row, from.Col, firstC1)
		names = names[:0]
		for n := range sp {
			names = append(names, n)
		}
		sort.Strings(names)
		for _, n := range names {
			vars = append(vars, variant{name: "spare-first-row-proof/" + n, first: sp[n], setF: true})
			if honest.LastIncompleteRowProof == nil && n == "own-row" {
				if l, err := shwap.GenerateSharesProofs(to.Row, lastC0, to.Col+1, b.W, rowShares(to.Row)); err == nil {
					vars = append(vars, variant{name: "spare-both-row-proofs/own-row", first: sp[n], last: l, setF: true, setL: true})
				}
			}
		}
	}
	rp := func(op string) any {
		return map[string]any{"check": "C12/range", "spec": b.Spec.String(), "op": op, "range": []int{s, e}, "layout": b.layout()}
	}
	for _, v := range vars {
		cont, err := g.GetRangeNamespaceData(ctx, b.Hdr, s, e) // a fresh container (the constructor trims rows in place)
		if err != nil {
			return
		}
		if v.setF {
			cont.FirstIncompleteRowProof = v.first
		}
		if v.setL {
			cont.LastIncompleteRowProof = v.last
		}
		// the wire: protobuf round trip
		raw, err := cont.ToProto().Marshal()
		if err != nil {
			c.st.out("foreign-container:marshal-error")
			continue
		}
		var pbc shwappb.RangeNamespaceData
		if err := pbc.Unmarshal(raw); err != nil {
			c.st.out("foreign-container:decode-error")
			continue
		}
		var recv shwap.RangeNamespaceData
		var derr, verr error
		if pn := vCatch(func() {
			recv, derr = shwap.RangeNamespaceDataFromProto(&pbc)
			if derr == nil {
				verr = recv.VerifyInclusion(from, to, b.W, b.Roots.RowRoots[from.Row:to.Row+1])
			}
		}); pn != "" {
			c.st.out("foreign-container:verify-panic")
			c.sink("C12/RangeNamespaceData.VerifyInclusion/"+vPanicKind(pn), fmt.Sprintf("verifying a container with %s for [%d,%d) panicked: %s; block %q", v.name, s, e, pn, b.Spec), rp(v.name))
			continue
		}
		if !c.caseDone(newVFPs("foreign-container", b.FP, s, e, v.name), true) {
			continue
		}
		if derr != nil || verr != nil {
			c.st.out("foreign-container:refused")
			continue
		}
		c.st.out("foreign-container:accepted")
		c.st.hist("foreign_containers_accepted", strings.SplitN(v.name, "/", 2)[0]+"/"+map[bool]string{true: "one-row", false: "multi-row"}[from.Row == to.Row])
		var res *GetRangeResult
		var rerr error
		if pn := vCatch(func() { res, rerr = newGetRangeResult(s, e, &recv, b.Hdr.DAH) }); pn != "" {
			c.sink("C12/newGetRangeResult/"+vPanicKind(pn), fmt.Sprintf("building the result for [%d,%d) from an accepted container with %s panicked: %s; block %q", s, e, v.name, pn, b.Spec), rp(v.name))
			continue
		}
		why := ""
		switch {
		case rerr != nil || res == nil:
			why = fmt.Sprintf("no result: %v", rerr)
		default:
			same := len(res.Shares) == e-s
			for i := 0; same && i < e-s; i++ {
				same = bytes.Equal(res.Shares[i].ToBytes(), b.ODS[s+i].ToBytes())
			}
			var verr error
			pn := vCatch(func() { verr = vCloneRange(res).Verify(b.DataRoot) })
			switch {
			case !same:
				why = "the shares are not ODS[start:end)"
			case pn != "":
				why = "Verify panicked: " + pn
			case verr != nil:
				why = "the result does not verify against the data root: " + verr.Error()
			default:
				if ok, w := vRangeClaimTrue(b, res, b.DataRoot); !ok {
					why = "the result verifies but " + w
				} else if int(res.Proof.ShareProofs[0].Start) != from.Col || !bytes.Equal(res.Proof.RowProof.RowRoots[0], b.Roots.RowRoots[from.Row]) {
					why = "the result proves another position"
				}
			}
		}
		if why != "" {
			c.st.out("foreign-container:bad-result")
			c.sink("C12/newGetRangeResult/accepted-container-bad-result", fmt.Sprintf("a range container for [%d,%d) with %s passes the protobuf round trip and VerifyInclusion, but the GetRangeResult built from it is wrong: %s; block %q layout %s",
				s, e, v.name, why, b.Spec, b.layout()), rp(v.name))
			continue
		}
		c.st.out("foreign-container:good-result")
		c.sample("range/foreign-container", map[string]any{"block": b.Spec.String(), "range": []int{s, e}, "container": v.name, "accepted": true, "result": "verifies, shares == ODS[start:end)"})
	}
}
