package share

// C12 (e): operators on the JSON (wire) form of the proofs: every structural substitution in the
// JSON tree (null / empty / zero / deleted / duplicated at every path) and byte operators
// (every truncation, every single-byte deletion, single-byte substitutions from a fixed set).
// A mutated document either fails to decode, or decodes to something Verify rejects, or decodes
// to something whose accepted claim is true; nothing panics.

import (
	"bytes"
	"context"
	"encoding/json"
	"fmt"
	"sort"

	coremerkle "github.com/cometbft/cometbft/crypto/merkle"

	"github.com/celestiaorg/celestia-node/blob"
)

type vJSONMut struct {
	Op  string // operator family
	At  string
	Doc []byte
}

// vJSONTreeMuts enumerates structural substitutions at every path of the document.
func vJSONTreeMuts(doc []byte) []vJSONMut {
	var root any
	dec := json.NewDecoder(bytes.NewReader(doc))
	dec.UseNumber()
	if err := dec.Decode(&root); err != nil {
		return nil
	}
	var out []vJSONMut
	emit := func(op, at string) {
		b, err := json.Marshal(root)
		if err == nil {
			out = append(out, vJSONMut{"json." + op, at, b})
		}
	}
	subs := []struct {
		name string
		v    any
	}{{"null", nil}, {"empty-array", []any{}}, {"empty-object", map[string]any{}}, {"empty-string", ""},
		{"zero", json.Number("0")}, {"minus-one", json.Number("-1")}, {"big-number", json.Number("4294967296")}, {"number-as-string", "7"}, {"true", true}}
	var walk func(get func() any, set func(any), path string)
	walk = func(get func() any, set func(any), path string) {
		orig := get()
		for _, s := range subs {
			set(s.v)
			emit(s.name, path)
		}
		set(orig)
		switch x := orig.(type) {
		case map[string]any:
			keys := make([]string, 0, len(x))
			for k := range x {
				keys = append(keys, k)
			}
			sort.Strings(keys)
			for _, k := range keys {
				v := x[k]
				delete(x, k)
				emit("delete-key", path+"/"+k)
				x[k] = v
				walk(func() any { return x[k] }, func(n any) { x[k] = n }, path+"/"+k)
			}
		case []any:
			for i := range x {
				// delete element i / duplicate element i
				del := append(append([]any{}, x[:i]...), x[i+1:]...)
				set(del)
				emit("delete-elem", fmt.Sprintf("%s/%d", path, i))
				dup := append(append(append([]any{}, x[:i+1]...), x[i]), x[i+1:]...)
				set(dup)
				emit("dup-elem", fmt.Sprintf("%s/%d", path, i))
				set(orig)
				walk(func() any { return x[i] }, func(n any) { x[i] = n }, fmt.Sprintf("%s/%d", path, i))
			}
			if len(x) >= 2 {
				sw := append([]any{}, x...)
				sw[0], sw[1] = sw[1], sw[0]
				set(sw)
				emit("swap-elems", path)
				set(orig)
			}
		}
	}
	walk(func() any { return root }, func(n any) { root = n }, "")
	return out
}

// vJSONByteMuts: every truncation, every single-byte deletion, substitutions from subs at every offset.
func vJSONByteMuts(doc []byte, subs []byte) []vJSONMut {
	var out []vJSONMut
	for n := 0; n < len(doc); n++ {
		out = append(out, vJSONMut{"bytes.truncate", fmt.Sprint(n), append([]byte{}, doc[:n]...)})
	}
	for i := range doc {
		d := append(append([]byte{}, doc[:i]...), doc[i+1:]...)
		out = append(out, vJSONMut{"bytes.delete", fmt.Sprint(i), d})
		for _, s := range subs {
			v := s
			if s == 0 {
				v = doc[i] ^ 1
			}
			if v == doc[i] {
				continue
			}
			d := append([]byte{}, doc...)
			d[i] = v
			out = append(out, vJSONMut{"bytes.substitute", fmt.Sprintf("%d:%q", i, v), d})
		}
	}
	return out
}

func (c *vC12) jsonSubs() []byte {
	if c.rep.Tier == "thorough" {
		return []byte{0, '0', '9', '"', 'A', ',', ':', '[', ']', '{', '}', '-', 'n', ' '}
	}
	return []byte{0, '0', '"', ',', ']', '-'}
}

func (c *vC12) checkJSON(b *vBlock, bytesToo bool) {
	ctx := context.Background()
	svc := vNewBlobService(vNewGetter(b))
	g := vNewGetter(b)
	m := module{getter: g, hs: &vHeaderMod{g: g}}
	rp := func(kind, op string) any {
		return map[string]any{"check": "C12/json", "spec": b.Spec.String(), "op": op, "doc": kind}
	}
	muts := func(doc []byte) []vJSONMut {
		out := vJSONTreeMuts(doc)
		if bytesToo {
			out = append(out, vJSONByteMuts(doc, c.jsonSubs())...)
		}
		return out
	}
	for _, r := range b.Refs {
		// ---- commitment proof
		if h, err := svc.GetCommitmentProof(ctx, b.Height, r.NS, r.Commitment); err == nil {
			doc, err := json.Marshal(h)
			if err != nil {
				c.rep.Infra("cannot marshal commitment proof: " + err.Error())
				return
			}
			// round trip is the identity
			var back blob.CommitmentProof
			if err := json.Unmarshal(doc, &back); err != nil || vFPCommitmentCase("", nil, nil, &back) != vFPCommitmentCase("", nil, nil, h) {
				c.sink("C12/CommitmentProof.JSON/round-trip", fmt.Sprintf("commitment proof of %v does not survive its JSON form: %v; block %q", r.Spec, err, b.Spec), rp("cproof", "round-trip"))
			}
			for _, mu := range muts(doc) {
				if c.expired() {
					return
				}
				if !c.caseDone(newVFPs("json-cp", b.FP, r.Commitment, mu.Doc), !bytes.Equal(mu.Doc, doc)) {
					continue
				}
				var p blob.CommitmentProof
				var derr, verr error
				if pn := vCatch(func() { derr = json.Unmarshal(mu.Doc, &p) }); pn != "" {
					c.st.out("json-cproof:decode-panic")
					c.sink(vOpSig("CommitmentProof.UnmarshalJSON", vPanicKind(pn), mu.Op), fmt.Sprintf("decoding panicked (%s) on %s at %s; block %q", pn, mu.Op, mu.At, b.Spec), rp("cproof", mu.Op))
					continue
				}
				if derr != nil {
					c.st.out("json-cproof:decode-error")
					continue
				}
				if pn := vCatch(func() { verr = vCloneCP(&p).Verify(b.DataRoot, r.Commitment) }); pn != "" {
					c.st.out("json-cproof:panic")
					c.sink(vOpSig("CommitmentProof.Verify", vPanicKind(pn), mu.Op), fmt.Sprintf("Verify panicked (%s) on the proof decoded from %s at %s of the JSON form of the proof of %v; block %q",
						pn, mu.Op, mu.At, r.Spec, b.Spec), rp("cproof", mu.Op))
					continue
				}
				if verr != nil {
					c.st.out("json-cproof:rejected")
					continue
				}
				if ok, why := vCommitmentClaimTrue(b, &p, b.DataRoot, r.Commitment); !ok {
					c.st.out("json-cproof:accepted-false-claim")
					c.sink(vOpSig("CommitmentProof.Verify", "accepts-false-claim", mu.Op), fmt.Sprintf("Verify accepted the proof decoded from %s at %s although %s; block %q", mu.Op, mu.At, why, b.Spec), rp("cproof", mu.Op))
					continue
				}
				c.st.out("json-cproof:accepted-true-claim")
			}
		}
		// ---- blob.Proof through Included (tree operators and truncations only: every call re-derives the blob)
		if own, err := svc.GetProof(ctx, b.Height, r.NS, r.Commitment); err == nil && own != nil {
			doc, err := json.Marshal(own)
			if err != nil {
				c.rep.Infra("cannot marshal blob proof: " + err.Error())
				return
			}
			for _, mu := range vJSONTreeMuts(doc) {
				if !c.caseDone(newVFPs("json-incl", b.FP, r.Commitment, mu.Doc), !bytes.Equal(mu.Doc, doc)) {
					continue
				}
				var p blob.Proof
				var derr error
				if pn := vCatch(func() { derr = json.Unmarshal(mu.Doc, &p) }); pn != "" {
					c.st.out("json-included:decode-panic")
					c.sink(vOpSig("Proof.UnmarshalJSON", vPanicKind(pn), mu.Op), fmt.Sprintf("decoding panicked (%s) on %s at %s; block %q", pn, mu.Op, mu.At, b.Spec), rp("proof", mu.Op))
					continue
				}
				if derr != nil {
					c.st.out("json-included:decode-error")
					continue
				}
				want := vProofEqual(p, *own)
				var got bool
				var ierr error
				arg := blob.Proof(vCloneNmts(p))
				if pn := vCatch(func() { got, ierr = svc.Included(ctx, b.Height, r.NS, &arg, r.Commitment) }); pn != "" {
					c.st.out("json-included:panic")
					c.sink(vOpSig("Proof.equal", vPanicKind(pn), mu.Op), fmt.Sprintf("Included panicked (%s) on the proof decoded from %s at %s of the JSON form of the node's proof for %v; block %q",
						pn, mu.Op, mu.At, r.Spec, b.Spec), rp("proof", mu.Op))
					continue
				}
				yes := got && ierr == nil
				switch {
				case yes && !want:
					c.st.out("json-included:accepted-wrong")
					c.sink(vOpSig("Included", "accepts-proof-it-does-not-derive", mu.Op), fmt.Sprintf("Included = (true,nil) for the proof decoded from %s at %s; block %q", mu.Op, mu.At, b.Spec), rp("proof", mu.Op))
				case !yes && want:
					c.st.out("json-included:rejected-own")
					c.sink(vOpSig("Included", "rejects-derived-proof", mu.Op), fmt.Sprintf("Included = (%v,%v) for a proof equal to the derived one (%s at %s); block %q", got, ierr, mu.Op, mu.At, b.Spec), rp("proof", mu.Op))
				case yes:
					c.st.out("json-included:true")
				default:
					c.st.out("json-included:not-true")
				}
			}
		}
		// ---- range result for the blob's first share (smallest document)
		if res, err := m.GetRange(ctx, b.Height, r.Start, r.Start+1); err == nil {
			doc, err := json.Marshal(res)
			if err != nil {
				c.rep.Infra("cannot marshal range result: " + err.Error())
				return
			}
			var back GetRangeResult
			if err := json.Unmarshal(doc, &back); err != nil || vFPRangeCase("", nil, &back) != vFPRangeCase("", nil, res) {
				c.sink("C12/GetRangeResult.JSON/round-trip", fmt.Sprintf("range result [%d,%d) does not survive its JSON form: %v; block %q", r.Start, r.Start+1, err, b.Spec), rp("range", "round-trip"))
			}
			for _, mu := range muts(doc) {
				if c.expired() {
					return
				}
				if !c.caseDone(newVFPs("json-range", b.FP, r.Start, mu.Doc), !bytes.Equal(mu.Doc, doc)) {
					continue
				}
				var p GetRangeResult
				var derr, verr error
				if pn := vCatch(func() { derr = json.Unmarshal(mu.Doc, &p) }); pn != "" {
					c.st.out("json-range:decode-panic")
					c.sink(vOpSig("GetRangeResult.UnmarshalJSON", vPanicKind(pn), mu.Op), fmt.Sprintf("decoding panicked (%s) on %s at %s; block %q", pn, mu.Op, mu.At, b.Spec), rp("range", mu.Op))
					continue
				}
				if derr != nil {
					c.st.out("json-range:decode-error")
					continue
				}
				if pn := vCatch(func() { verr = p.Verify(b.DataRoot) }); pn != "" {
					c.st.out("json-range:panic")
					c.sink(vOpSig("GetRangeResult.Verify", vPanicKind(pn), mu.Op), fmt.Sprintf("Verify panicked (%s) on the result decoded from %s at %s of the JSON form of the result for [%d,%d); block %q",
						pn, mu.Op, mu.At, r.Start, r.Start+1, b.Spec), rp("range", mu.Op))
					continue
				}
				if verr != nil {
					c.st.out("json-range:rejected")
					continue
				}
				if ok, why := vRangeClaimTrue(b, &p, b.DataRoot); !ok {
					c.st.out("json-range:accepted-false-claim")
					c.sink(vOpSig("GetRangeResult.Verify", "accepts-false-claim", mu.Op), fmt.Sprintf("Verify accepted the result decoded from %s at %s although %s; block %q", mu.Op, mu.At, why, b.Spec), rp("range", mu.Op))
					continue
				}
				c.st.out("json-range:accepted-true-claim")
			}
		}
	}
}

// checkTupleJSON: the JSON form of a data-root-tuple proof.
func (c *vC12) checkTupleJSON(pf *coremerkle.Proof, root, leaf []byte) {
	doc, err := json.Marshal(pf)
	if err != nil {
		return
	}
	all := append(vJSONTreeMuts(doc), vJSONByteMuts(doc, c.jsonSubs())...)
	for _, mu := range all {
		if !c.caseDone(newVFPs("json-tuple", root, leaf, mu.Doc), !bytes.Equal(mu.Doc, doc)) {
			continue
		}
		var p coremerkle.Proof
		var derr, verr error
		if pn := vCatch(func() { derr = json.Unmarshal(mu.Doc, &p) }); pn != "" || derr != nil {
			c.st.out("json-tuple:decode-error")
			continue
		}
		if pn := vCatch(func() { verr = p.Verify(root, leaf) }); pn != "" {
			c.st.out("json-tuple:panic")
			c.sink(vOpSig("blobstream/tuple-proof.Verify", vPanicKind(pn), mu.Op), fmt.Sprintf("verifying the tuple proof decoded from %s at %s panicked: %s", mu.Op, mu.At, pn),
				map[string]any{"check": "C12/tuple", "spec": "6", "op": mu.Op})
			continue
		}
		if verr != nil {
			c.st.out("json-tuple:rejected")
			continue
		}
		// same root, same tuple: the statement is unchanged whatever the proof's labels say
		c.st.out("json-tuple:accepted-true-claim")
	}
}
