package share

// Shared block generator for the C11 / C12 harnesses.
//
// A block is built by the REAL square-layout code (go-square Builder: AppendTx / AppendBlobTx /
// Export, with the production subtree-root threshold), extended by the real rsmt2d/da code, and
// served to the real blob.Service / share module through a getter that does exactly what
// store.Getter does on an accessor (eds.NamespaceData / Accessor.RangeNamespaceData).
// The reference ("what is in the block and where") comes from the builder's own bookkeeping
// (FindBlobStartingIndex) and is cross-checked against the exported square before use.

import (
	"bytes"
	"context"
	"crypto/sha256"
	"encoding/hex"
	"errors"
	"fmt"
	"sort"
	"strings"
	"sync"

	"github.com/celestiaorg/celestia-app/v9/pkg/appconsts"
	"github.com/celestiaorg/celestia-app/v9/pkg/wrapper"
	square "github.com/celestiaorg/go-square/v4"
	"github.com/celestiaorg/go-square/v4/inclusion"
	libshare "github.com/celestiaorg/go-square/v4/share"
	sqtx "github.com/celestiaorg/go-square/v4/tx"
	"github.com/celestiaorg/nmt"
	"github.com/celestiaorg/rsmt2d"
	coremerkle "github.com/cometbft/cometbft/crypto/merkle"

	"github.com/celestiaorg/celestia-node/blob"
	"github.com/celestiaorg/celestia-node/header"
	nodeshare "github.com/celestiaorg/celestia-node/share"
	"github.com/celestiaorg/celestia-node/share/eds"
	"github.com/celestiaorg/celestia-node/share/shwap"
)

// ---------------------------------------------------------------- alphabet

// vSize is one entry of the blob-size alphabet: K shares, the last one holding Tail bytes
// (Tail==0: last share exactly full). For K==1, Tail is the number of data bytes (0 = full).
type vSize struct {
	Name string
	K    int
	Tail int
}

func (z vSize) dataLen(ver int) int {
	first := libshare.FirstSparseShareContentSize
	if ver == 1 {
		first = libshare.FirstSparseShareContentSizeWithSigner
	}
	cont := libshare.ContinuationSparseShareContentSize
	if z.K == 1 {
		switch {
		case z.Tail == 0:
			return first
		case z.Tail < 0: // full minus |Tail|
			return first + z.Tail
		default:
			return z.Tail
		}
	}
	last := cont
	if z.Tail > 0 {
		last = z.Tail
	} else if z.Tail < 0 {
		last = cont + z.Tail
	}
	return first + (z.K-2)*cont + last
}

var vSizes = map[string]vSize{
	"1B":    {"1B", 1, 1},     // one byte
	"S-1":   {"S-1", 1, -1},   // one share minus one byte
	"S":     {"S", 1, 0},      // exactly one share
	"S+1":   {"S+1", 2, 1},    // one share plus one byte
	"2S":    {"2S", 2, 0},     // exactly two shares
	"3S":    {"3S", 3, 0},     //
	"3S+1":  {"3S+1", 4, 1},   // row of a 4-wide square
	"5S":    {"5S", 5, -1},    // row+1 of a 4-wide square, one byte short
	"7S":    {"7S", 7, 0},     // row-1 of an 8-wide square
	"8S":    {"8S", 8, 0},     // row of an 8-wide square
	"9S":    {"9S", 9, 1},     // row+1 of an 8-wide square
	"15S":   {"15S", 15, 0},   // row-1 of a 16-wide square
	"16S":   {"16S", 16, 0},   // row
	"17S":   {"17S", 17, 1},   // row+1
	"33S":   {"33S", 33, 0},   // two rows + 1
	"65S":   {"65S", 65, 1},   // smallest blob with subtree width 2 (layout padding appears)
	"66S":   {"66S", 66, 0},   //
	"129S":  {"129S", 129, 0}, // subtree width 4
	"130S":  {"130S", 130, -1},
	"257S":  {"257S", 257, 1},   // subtree width 8, 32-wide square
	"4100S": {"4100S", 4100, 0}, // filler that forces a 128-wide square
}

// namespaces: three present-able user namespaces A<B<C and probes that are never present.
var (
	vNSNames  = []string{"A", "B", "C"}
	vNS       = map[string]libshare.Namespace{}
	vAbsentNS []libshare.Namespace // below A, between A and B, between B and C, above C
	vSigner   = bytes.Repeat([]byte{0x5a}, libshare.SignerSize)
)

func init() {
	mk := func(b byte) libshare.Namespace {
		id := make([]byte, libshare.NamespaceVersionZeroIDSize)
		id[len(id)-2] = b // 0x..bb00 : above the primary reserved range (<= 0xff)
		return libshare.MustNewV0Namespace(id)
	}
	vNS["A"], vNS["B"], vNS["C"] = mk(0x20), mk(0x40), mk(0x60)
	vAbsentNS = []libshare.Namespace{mk(0x10), mk(0x30), mk(0x50), mk(0x70)}
	// the namespace-count ladder: N00 < X00 < N01 < X01 < ... (all above C); Nkk can hold blobs,
	// Xkk never does
	for k := 0; k < vLadderMax; k++ {
		id := make([]byte, libshare.NamespaceVersionZeroIDSize)
		id[len(id)-3], id[len(id)-2] = 1, byte(k)
		vNS[fmt.Sprintf("N%02d", k)] = libshare.MustNewV0Namespace(id)
		id2 := append([]byte{}, id...)
		id2[len(id2)-1] = 0x80
		vLadderAbsent = append(vLadderAbsent, libshare.MustNewV0Namespace(id2))
	}
}

const vLadderMax = 72

var vLadderAbsent []libshare.Namespace

// vBlobSpec is one blob of a block specification.
type vBlobSpec struct {
	NS   string `json:"ns"`
	Ver  int    `json:"ver"`
	Size string `json:"size"`
	Var  int    `json:"var"`  // content variant: equal (NS,Ver,Size,Var) => byte-identical blobs
	Join bool   `json:"join"` // true: same blob transaction as the previous blob
	// Twin: the payload is the one the OTHER share version would get for this (NS,Size,Var), so a
	// blob and its twin carry byte-identical data under different share versions.
	Twin bool `json:"twin,omitempty"`
	// Sig selects the signer of a v1 blob (0 = the default signer).
	Sig int `json:"sig,omitempty"`
}

// dataVer is the share version whose capacity rules and seed produce this blob's payload.
func (b vBlobSpec) dataVer() int {
	if b.Twin {
		return 1 - b.Ver
	}
	return b.Ver
}

func vSignerFor(k int) []byte { return bytes.Repeat([]byte{0x5a + byte(k)}, libshare.SignerSize) }

func (b vBlobSpec) String() string {
	j := ""
	if b.Join {
		j = "+"
	}
	out := fmt.Sprintf("%s%s.v%d.%s.%d", j, b.NS, b.Ver, b.Size, b.Var)
	if b.Twin {
		out += ".t"
	}
	if b.Sig != 0 {
		out += fmt.Sprintf(".s%d", b.Sig)
	}
	return out
}

func vParseBlobSpec(s string) (vBlobSpec, error) {
	var b vBlobSpec
	if strings.HasPrefix(s, "+") {
		b.Join = true
		s = s[1:]
	}
	p := strings.Split(s, ".")
	if len(p) < 4 || len(p) > 6 {
		return b, fmt.Errorf("bad blob spec %q", s)
	}
	for _, x := range p[4:] {
		switch {
		case x == "t":
			b.Twin = true
		case strings.HasPrefix(x, "s"):
			if _, err := fmt.Sscanf(x, "s%d", &b.Sig); err != nil {
				return b, err
			}
		default:
			return b, fmt.Errorf("bad blob spec %q", s)
		}
	}
	b.NS = p[0]
	if _, err := fmt.Sscanf(p[1], "v%d", &b.Ver); err != nil {
		return b, err
	}
	b.Size = p[2]
	if _, err := fmt.Sscanf(p[3], "%d", &b.Var); err != nil {
		return b, err
	}
	if _, ok := vSizes[b.Size]; !ok {
		return b, fmt.Errorf("unknown size %q", b.Size)
	}
	if _, ok := vNS[b.NS]; !ok {
		return b, fmt.Errorf("unknown namespace %q", b.NS)
	}
	return b, nil
}

// vBlockSpec: Txs ordinary transactions (0..2) followed by the blobs in priority order.
type vBlockSpec struct {
	Txs   int         `json:"txs"`
	Blobs []vBlobSpec `json:"blobs"`
}

func (s vBlockSpec) String() string {
	parts := make([]string, 0, len(s.Blobs)+1)
	parts = append(parts, fmt.Sprintf("tx%d", s.Txs))
	for _, b := range s.Blobs {
		parts = append(parts, b.String())
	}
	return strings.Join(parts, " ")
}

func vParseBlockSpec(s string) (vBlockSpec, error) {
	var spec vBlockSpec
	f := strings.Fields(s)
	if len(f) == 0 {
		return spec, errors.New("empty block spec")
	}
	if _, err := fmt.Sscanf(f[0], "tx%d", &spec.Txs); err != nil {
		return spec, err
	}
	for _, x := range f[1:] {
		b, err := vParseBlobSpec(x)
		if err != nil {
			return spec, err
		}
		spec.Blobs = append(spec.Blobs, b)
	}
	return spec, nil
}

// content: byte i of a blob is a function of (ns, ver, size, variant, i); variants of one
// (ns,ver,size) differ only in their LAST byte, so multi-share variants share every share but
// the last (the hardest case for locating a blob by its share bytes).
func vBlobData(b vBlobSpec) []byte {
	n := vSizes[b.Size].dataLen(b.dataVer())
	seed := sha256.Sum256([]byte(fmt.Sprintf("%s/%d/%s", b.NS, b.dataVer(), b.Size)))
	d := make([]byte, n)
	for i := range d {
		d[i] = seed[i%32] ^ byte(i) ^ byte(i>>8)
	}
	d[n-1] ^= byte(0x80 | b.Var)
	return d
}

var vOrdinaryTxs = [][]byte{
	bytes.Repeat([]byte{0xc1}, 100), // fits in one compact share
	bytes.Repeat([]byte{0xc2}, 600), // crosses a compact-share boundary
}

// ---------------------------------------------------------------- block

type vRefBlob struct {
	Spec       vBlobSpec
	NS         libshare.Namespace
	Data       []byte
	Signer     []byte
	Ver        uint8
	Commitment []byte
	Start      int // index of the first share in the ODS (row-major)
	N          int // number of shares
	EDSIndex   int // the same position expressed in EDS row-major coordinates
	Lib        *libshare.Blob
}

type vBlock struct {
	Spec     vBlockSpec
	Height   uint64
	W        int // ODS width
	ODS      []libshare.Share
	EDS      *rsmt2d.ExtendedDataSquare
	Roots    *nodeshare.AxisRoots
	DataRoot []byte
	Hdr      *header.ExtendedHeader
	Refs     []*vRefBlob // in block order
	Padding  int         // namespace-padding shares inside user namespaces
	FP       string      // hash of the ODS

	treeMu sync.Mutex
	trees  map[int]*nmt.NamespacedMerkleTree // row NMTs rebuilt from the square (ground truth)
}

func (b *vBlock) refsOf(ns libshare.Namespace) []*vRefBlob {
	var out []*vRefBlob
	for _, r := range b.Refs {
		if r.NS.Equals(ns) {
			out = append(out, r)
		}
	}
	return out
}

// layout renders the ODS as one letter per share (for samples and replay files):
// t=tx p=pfb r=reserved padding A/B/C=blob share (upper-case on a blob's first share: "A" then
// "a" continuation) _=namespace padding .=tail padding, rows separated by '|'.
func (b *vBlock) layout() string {
	var sb strings.Builder
	for i, s := range b.ODS {
		if i > 0 && i%b.W == 0 {
			sb.WriteByte('|')
		}
		ns := s.Namespace()
		switch {
		case ns.IsTx():
			sb.WriteByte('t')
		case ns.IsPayForBlob():
			sb.WriteByte('p')
		case ns.IsTailPadding():
			sb.WriteByte('.')
		case ns.IsPrimaryReservedPadding():
			sb.WriteByte('r')
		default:
			c := byte('N') // a ladder namespace
			for _, n := range vNSNames {
				if vNS[n].Equals(ns) {
					c = n[0]
				}
			}
			switch {
			case s.IsPadding():
				sb.WriteByte('_')
			case s.IsSequenceStart():
				sb.WriteByte(c)
			default:
				sb.WriteByte(c + 32)
			}
		}
	}
	return sb.String()
}

const vMaxSquare = 128

var errVTooBig = errors.New("block does not fit")

// vBuildSquare runs the real layout code only (no extension): used for fingerprints.
func vBuildSquare(spec vBlockSpec) (*square.Builder, []libshare.Share, []*vRefBlob, error) {
	bld, err := square.NewBuilder(vMaxSquare, appconsts.SubtreeRootThreshold)
	if err != nil {
		return nil, nil, nil, err
	}
	if spec.Txs < 0 || spec.Txs > len(vOrdinaryTxs) {
		return nil, nil, nil, fmt.Errorf("txs=%d out of range", spec.Txs)
	}
	for i := 0; i < spec.Txs; i++ {
		if !bld.AppendTx(vOrdinaryTxs[i]) {
			return nil, nil, nil, errVTooBig
		}
	}
	// group blobs into blob transactions
	type grp struct{ blobs []*libshare.Blob }
	var groups [][]int
	for i, bs := range spec.Blobs {
		if bs.Join && i > 0 {
			groups[len(groups)-1] = append(groups[len(groups)-1], i)
		} else {
			groups = append(groups, []int{i})
		}
	}
	refs := make([]*vRefBlob, len(spec.Blobs))
	for i, bs := range spec.Blobs {
		data := vBlobData(bs)
		var signer []byte
		if bs.Ver == 1 {
			signer = vSignerFor(bs.Sig)
		}
		lb, err := libshare.NewBlob(vNS[bs.NS], data, uint8(bs.Ver), signer)
		if err != nil {
			return nil, nil, nil, fmt.Errorf("NewBlob(%v): %w", bs, err)
		}
		refs[i] = &vRefBlob{Spec: bs, NS: vNS[bs.NS], Data: data, Signer: signer, Ver: uint8(bs.Ver), Lib: lb,
			N: libshare.SparseSharesNeeded(uint32(len(data)), bs.Ver == 1)}
	}
	for gi, g := range groups {
		bt := &sqtx.BlobTx{Tx: bytes.Repeat([]byte{0xe0 + byte(gi)}, 90)}
		for _, i := range g {
			bt.Blobs = append(bt.Blobs, refs[i].Lib)
		}
		ok, err := bld.AppendBlobTx(bt)
		if err != nil {
			return nil, nil, nil, err
		}
		if !ok {
			return nil, nil, nil, errVTooBig
		}
	}
	sq, err := bld.Export()
	if err != nil {
		return nil, nil, nil, fmt.Errorf("Export: %w", err)
	}
	for gi, g := range groups {
		for bi, i := range g {
			st, err := bld.FindBlobStartingIndex(spec.Txs+gi, bi)
			if err != nil {
				return nil, nil, nil, fmt.Errorf("FindBlobStartingIndex(%d,%d): %w", gi, bi, err)
			}
			refs[i].Start = st
		}
	}
	return bld, []libshare.Share(sq), refs, nil
}

func vFingerprint(ods []libshare.Share) string {
	h := sha256.New()
	for _, s := range ods {
		h.Write(s.ToBytes())
	}
	return hex.EncodeToString(h.Sum(nil)[:12])
}

// vBuildBlock builds the block for spec at the given height: layout, reference, extension.
func vBuildBlock(spec vBlockSpec, height uint64) (*vBlock, error) {
	b, err := vLayoutBlock(spec, height)
	if err != nil {
		return nil, err
	}
	return b, b.extend()
}

// extend runs the real rsmt2d / da code over the laid-out square.
func (b *vBlock) extend() (err error) {
	b.EDS, err = rsmt2d.ComputeExtendedDataSquare(libshare.ToBytes(b.ODS), nodeshare.DefaultRSMT2DCodec(),
		wrapper.NewConstructor(uint64(b.W)))
	if err != nil {
		return fmt.Errorf("extend: %w", err)
	}
	b.Roots, err = nodeshare.NewAxisRoots(b.EDS)
	if err != nil {
		return err
	}
	b.DataRoot = b.Roots.Hash()
	b.Hdr = &header.ExtendedHeader{
		RawHeader: header.RawHeader{Height: int64(b.Height), DataHash: b.DataRoot, ChainID: "verif"},
		DAH:       b.Roots,
	}
	return nil
}

// vLayoutBlock runs the real layout code and builds the cross-checked reference (no extension).
func vLayoutBlock(spec vBlockSpec, height uint64) (*vBlock, error) {
	_, ods, refs, err := vBuildSquare(spec)
	if err != nil {
		return nil, err
	}
	w := 1
	for w*w < len(ods) {
		w *= 2
	}
	if w*w != len(ods) {
		return nil, fmt.Errorf("square of %d shares is not a power-of-two square", len(ods))
	}
	b := &vBlock{Spec: spec, Height: height, W: w, ODS: ods, FP: vFingerprint(ods)}
	// reference: commitment (computed by the layout library, not by the node), position, and a
	// cross-check of the builder's bookkeeping against the exported square.
	for _, r := range refs {
		r.Commitment, err = inclusion.CreateCommitment(r.Lib, coremerkle.HashFromByteSlices, appconsts.SubtreeRootThreshold)
		if err != nil {
			return nil, err
		}
		r.EDSIndex = (r.Start/w)*(2*w) + r.Start%w
		shs, err := r.Lib.ToShares()
		if err != nil {
			return nil, err
		}
		if len(shs) != r.N || r.Start+r.N > len(ods) {
			return nil, fmt.Errorf("reference broken: blob %v has %d shares, expected %d at %d", r.Spec, len(shs), r.N, r.Start)
		}
		for i, s := range shs {
			if !bytes.Equal(s.ToBytes(), ods[r.Start+i].ToBytes()) {
				return nil, fmt.Errorf("reference broken: blob %v share %d is not at ODS index %d", r.Spec, i, r.Start+i)
			}
		}
	}
	sort.SliceStable(refs, func(i, j int) bool { return refs[i].Start < refs[j].Start })
	b.Refs = refs
	// every non-padding user-namespace share must belong to exactly one reference blob
	covered := make([]bool, len(ods))
	for _, r := range refs {
		for i := 0; i < r.N; i++ {
			if covered[r.Start+i] {
				return nil, fmt.Errorf("reference broken: overlapping blobs at %d", r.Start+i)
			}
			covered[r.Start+i] = true
		}
	}
	for i, s := range ods {
		ns := s.Namespace()
		user := !ns.IsReserved()
		switch {
		case user && s.IsPadding():
			b.Padding++
			if covered[i] {
				return nil, fmt.Errorf("reference broken: padding share %d inside a blob", i)
			}
		case user && !covered[i]:
			return nil, fmt.Errorf("reference broken: user share %d belongs to no blob", i)
		case !user && covered[i]:
			return nil, fmt.Errorf("reference broken: reserved share %d inside a blob", i)
		}
	}
	return b, nil
}

// ---------------------------------------------------------------- getter / services

// vGetter serves a set of blocks by height exactly like store.Getter serves accessors.
type vGetter struct {
	blocks map[uint64]*vBlock
}

func (g *vGetter) acc(h *header.ExtendedHeader) (*eds.Rsmt2D, error) {
	b, ok := g.blocks[h.Height()]
	if !ok {
		return nil, shwap.ErrNotFound
	}
	return &eds.Rsmt2D{ExtendedDataSquare: b.EDS}, nil
}

func (g *vGetter) GetSamples(ctx context.Context, h *header.ExtendedHeader, idx []shwap.SampleCoords) ([]shwap.Sample, error) {
	a, err := g.acc(h)
	if err != nil {
		return nil, err
	}
	out := make([]shwap.Sample, len(idx))
	for i, c := range idx {
		out[i], err = a.Sample(ctx, c)
		if err != nil {
			return nil, err
		}
	}
	return out, nil
}

func (g *vGetter) GetEDS(_ context.Context, h *header.ExtendedHeader) (*rsmt2d.ExtendedDataSquare, error) {
	a, err := g.acc(h)
	if err != nil {
		return nil, err
	}
	return a.ExtendedDataSquare, nil
}

func (g *vGetter) GetRow(ctx context.Context, h *header.ExtendedHeader, rowIdx int) (shwap.Row, error) {
	a, err := g.acc(h)
	if err != nil {
		return shwap.Row{}, err
	}
	half, err := a.AxisHalf(ctx, rsmt2d.Row, rowIdx)
	if err != nil {
		return shwap.Row{}, err
	}
	return half.ToRow(), nil
}

func (g *vGetter) GetNamespaceData(ctx context.Context, h *header.ExtendedHeader, ns libshare.Namespace) (shwap.NamespaceData, error) {
	a, err := g.acc(h)
	if err != nil {
		return nil, err
	}
	return eds.NamespaceData(ctx, a, ns)
}

func (g *vGetter) GetRangeNamespaceData(ctx context.Context, h *header.ExtendedHeader, from, to int) (shwap.RangeNamespaceData, error) {
	a, err := g.acc(h)
	if err != nil {
		return shwap.RangeNamespaceData{}, err
	}
	return a.RangeNamespaceData(ctx, from, to)
}

var _ shwap.Getter = (*vGetter)(nil)

func (g *vGetter) headerByHeight(_ context.Context, height uint64) (*header.ExtendedHeader, error) {
	b, ok := g.blocks[height]
	if !ok {
		return nil, fmt.Errorf("header at height %d not found", height)
	}
	return b.Hdr, nil
}

func vNewGetter(blocks ...*vBlock) *vGetter {
	g := &vGetter{blocks: map[uint64]*vBlock{}}
	for _, b := range blocks {
		g.blocks[b.Height] = b
	}
	return g
}

func vNewBlobService(g *vGetter) *blob.Service {
	return blob.NewService(nil, g, g.headerByHeight, func(context.Context) (<-chan *header.ExtendedHeader, error) {
		return nil, errors.New("not used")
	})
}

// vCatch runs f and converts a panic into a string (first line of the panic value).
func vCatch(f func()) (panicked string) {
	defer func() {
		if r := recover(); r != nil {
			panicked = fmt.Sprint(r)
			if i := strings.IndexByte(panicked, '\n'); i > 0 {
				panicked = panicked[:i]
			}
			if panicked == "" {
				panicked = "panic"
			}
		}
	}()
	f()
	return ""
}

func vHex(b []byte) string {
	if len(b) > 8 {
		return hex.EncodeToString(b[:8]) + "…"
	}
	return hex.EncodeToString(b)
}
