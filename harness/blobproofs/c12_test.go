package share

// C12 - Inclusion proofs handed to clients verify, and only for what they claim.
//
// Bounded-exhaustive fault enumeration on the real implementation: over an explicit set of blocks
// built by the real layout code, (a) every blob's commitment proof, (b) every blob's inclusion
// check, (c) every in-namespace share range, (d) every (start,end,height) data-root-tuple proof
// over a real header store, each under the full tamper-operator alphabet, and (e) the operators
// on the JSON form. One package drives all of it: the harness is an in-package test of
// nodebuilder/share (module.GetRange / newGetRangeResult are unexported there) importing blob and
// nodebuilder/blobstream, neither of which imports nodebuilder/share.

import (
	"context"
	"fmt"
	"os"
	"sort"
	"strings"
	"sync"
	"sync/atomic"
	"testing"
	"time"

	logging "github.com/ipfs/go-log/v2"

	coremerkle "github.com/cometbft/cometbft/crypto/merkle"

	"github.com/celestiaorg/celestia-node/nodebuilder/blobstream"
	"github.com/celestiaorg/celestia-node/verifx/vx"
)

type vC12 struct {
	rep  *vx.Report
	st   *vStats
	sink vSink

	mu       sync.Mutex
	seen     map[[16]byte]struct{}
	evals    int64
	distinct int64
	cpu      map[string]time.Duration
	sampled  map[string]bool
	deadline time.Time
	cut      atomic.Bool // a sub-harness stopped in the middle of a block because the soft deadline passed
}

func (c *vC12) expired() bool {
	if !c.deadline.IsZero() && time.Now().After(c.deadline) {
		c.cut.Store(true)
		return true
	}
	return false
}

// timed adds the duration of f to the per-sub-harness total (reported as evidence, never an oracle).
func (c *vC12) timed(name string, f func()) {
	t0 := time.Now()
	f()
	c.mu.Lock()
	if c.cpu == nil {
		c.cpu = map[string]time.Duration{}
	}
	c.cpu[name] += time.Since(t0)
	c.mu.Unlock()
}

// sample records one written-out case per kind for the evidence file.
func (c *vC12) sample(kind string, v map[string]any) {
	c.mu.Lock()
	if c.sampled == nil {
		c.sampled = map[string]bool{}
	}
	dup := c.sampled[kind]
	c.sampled[kind] = true
	c.mu.Unlock()
	if !dup {
		v["kind"] = kind
		c.rep.AddSample(v)
	}
}

// caseDone registers one executed case; it returns false when the very same input was executed
// before (the case is then skipped). nontrivial: the operator actually changed the input.
func (c *vC12) caseDone(fp [16]byte, nontrivial bool) bool {
	c.mu.Lock()
	defer c.mu.Unlock()
	if _, dup := c.seen[fp]; dup {
		return false
	}
	c.seen[fp] = struct{}{}
	c.evals++
	if nontrivial {
		c.distinct++
	}
	return true
}

// vC12Blocks: the explicit block sets. "small" blocks get every sub-harness including all ranges;
// "wide" blocks (layout padding, many rows) get proofs, inclusion and boundary-class ranges.
func vC12Blocks(tier string) (small, wide []vBlockSpec) {
	gen := func(txs []int, depth int, first, rest []vBlobSpec, group string) []vBlockSpec {
		var out []vBlockSpec
		var rec func(cur []vBlobSpec)
		for _, tx := range txs {
			rec = func(cur []vBlobSpec) {
				out = append(out, vBlockSpec{Txs: tx, Blobs: append([]vBlobSpec{}, cur...)})
				if len(cur) == depth {
					return
				}
				al := rest
				if len(cur) == 0 {
					al = first
				}
				for _, a := range al {
					a.Join = group == "one" && len(cur) > 0
					rec(append(cur, a))
				}
				if len(cur) > 0 {
					d := cur[len(cur)-1]
					d.Join = false
					rec(append(cur, d)) // exact duplicate
					d.Var++
					rec(append(cur, d)) // same shares but the last
				}
			}
			rec(nil)
		}
		return out
	}
	if tier != "thorough" {
		s := vAlphaFixed("AB", "1B:1", "S+1:0", "5S:1", "9S:0")
		small = gen([]int{0, 2}, 2, s, s, "sep")
		w := vAlphaFixed("AB", "S:0", "65S:0", "129S:1")
		wide = gen([]int{1}, 2, w, w, "one")
		return small, wide
	}
	s := vAlphaFixed("AB", "1B:1", "S+1:0", "3S:0", "5S:1", "9S:0")
	small = gen([]int{0, 1, 2}, 3, s, s, "sep")
	w := vAlphaFixed("ABC", "S:0", "S+1:1", "17S:1", "33S:0", "65S:0", "129S:1")
	wide = append(gen([]int{0, 1, 2}, 2, w, w, "one"), gen([]int{1}, 3, vAlphaFixed("AB", "S:1", "65S:0", "129S:0"), vAlphaFixed("AB", "S:1", "65S:0", "129S:0"), "sep")...)
	wide = append(wide, gen([]int{0}, 2, vAlphaFixed("A", "257S:0", "S:1"), vAlphaFixed("AB", "257S:1", "65S:0"), "sep")...)
	return small, wide
}

func TestVerifC12(t *testing.T) {
	logging.SetAllLoggers(logging.LevelFatal)
	rep := vx.NewReport("C12", "fault_enumeration")
	rep.Rule = "explicit block sets (every sequence of <= depth blobs over a listed alphabet plus exact and last-byte-differing duplicates, real layout code, " +
		"squares deduplicated by ODS hash); per block the honest path on EVERY blob (commitment proof, GetProof, Included) and EVERY in-namespace share range " +
		"(all [start,end) of same-namespace runs <= 24 shares, boundary classes of longer runs); the tamper-operator alphabet on every blob of the small blocks, on the " +
		"first blob of every (width, rows, position, padding, subtree width) class of the wide blocks and on the first range of every (width, shape, rows, namespace kind) " +
		"class; the alphabet includes RE-SPLIT operators on every list of byte strings (nodes, subtree roots, row roots, aunts, proven data: same concatenation, another partition) and DEGENERATE inputs (all components emptied with the commitment recomputed over the emptied list, row spans / ranges / totals / indexes " +
		"at wrap-around, zero, negative and maximal values with the components trimmed to the matching possibly-zero length), each against the real root, another block's root " +
		"and two unrelated roots, as a struct and through its JSON form; every (start,end,height) with 0 <= start,end,height <= head+2 over a real header store x every tuple-proof operator; JSON-tree and byte operators on the " +
		"wire forms. A case is one executed (input, claim) pair, distinct by a canonical hash of the input; non-trivial when the operator changed the honest input or claim"
	rep.Assumptions = []string{
		"ground truth for an accepted proof is recomputed from the real rsmt2d square (row NMTs rebuilt from the cells, share bytes compared cell by cell); hash / NMT / RS soundness is trusted",
		"acceptance of a tampered proof is a violation only when what it states is false; labels the verifier does not authenticate (NamespaceID / NamespaceVersion / RowProof.Root of a commitment proof, StartRow/EndRow shifted together) are reported as 'accepted-true-claim', not as violations",
		"Included answers 'true' means (true, nil); (true, err) is an error answer",
		"the getter under the services does what store.Getter does on an accessor; the header chain lives in a real go-header store over an in-memory datastore",
		"tuple-proof verification is cometbft's merkle.Proof.Verify (what clients and the blobstream contracts implement)",
	}
	if rp := os.Getenv("VERIF_REPLAY"); rp != "" {
		vReplay(t, rep, rp)
		return
	}
	st := newVStats()
	deadline := rep.Deadline(85*time.Second, 18*time.Minute)
	c := &vC12{rep: rep, st: st, sink: rep.Violation, seen: map[[16]byte]struct{}{}, deadline: deadline}

	smallSpecs, wideSpecs := vC12Blocks(rep.Tier)
	// Sequential, deterministic pre-pass over the layouts: drop specs that produce a square already
	// listed, and decide which block is the first of every blob class / range class (those get the
	// tamper operators; the honest path is checked on every blob and range of every block).
	type job struct {
		spec vBlockSpec
		wide bool
		owns map[string]bool
	}
	var jobs []job
	{
		seenFP := map[string]bool{}
		seenClass := map[string]bool{}
		add := func(s vBlockSpec, wide bool) {
			b, err := vLayoutBlock(s, 1)
			if err != nil {
				rep.Infra(fmt.Sprintf("block %q: %v", s, err))
				return
			}
			if seenFP[b.FP] {
				return
			}
			seenFP[b.FP] = true
			j := job{spec: s, wide: wide, owns: map[string]bool{}}
			for _, r := range b.Refs {
				k := "blob:" + b.blobClass(r)
				if !seenClass[k] {
					seenClass[k] = true
					j.owns[k] = true
				}
			}
			for _, run := range b.runs() {
				rs, _ := b.rangesOf(run)
				for _, se := range rs {
					k := "range:" + b.rangeKey(se[0], se[1])
					if !seenClass[k] {
						seenClass[k] = true
						j.owns[k] = true
					}
				}
			}
			jobs = append(jobs, j)
		}
		for _, s := range smallSpecs {
			add(s, false)
		}
		for _, s := range wideSpecs {
			add(s, true)
		}
		rep.Set("tamper_classes", len(seenClass))
	}
	// a second block (another data root) for "different root" operators
	other, err := vBuildBlock(vBlockSpec{Txs: 1, Blobs: []vBlobSpec{{NS: "B", Ver: 0, Size: "3S"}}}, 1)
	if err != nil {
		t.Fatalf("VERIF-INFRA-ERROR %v", err)
	}

	// determinism self-check: the same block, twice, gives the same observations
	{
		spec, _ := vParseBlockSpec("tx1 A.v0.S+1.0 A.v1.5S.0 B.v0.9S.0")
		var logs [2]string
		for i := range logs {
			b, err := vBuildBlock(spec, 1)
			if err != nil {
				t.Fatalf("VERIF-INFRA-ERROR %v", err)
			}
			var sb []string
			cc := &vC12{rep: rep, st: newVStats(), seen: map[[16]byte]struct{}{}, sink: func(sig, what string, _ any) { sb = append(sb, sig+"|"+what) }}
			cc.checkCommitmentProofs(b, other.DataRoot, vAllBlobs)
			cc.checkIncluded(b, vAllBlobs)
			cc.checkRanges(b, other.DataRoot, vAllClasses)
			sort.Strings(sb)
			logs[i] = fmt.Sprint(cc.st.Outcomes, cc.evals, cc.distinct, sb)
		}
		if logs[0] != logs[1] {
			rep.Infra("NONDETERMINISM: the same block checked twice gave different observations")
			t.FailNow()
		}
	}

	var blocksDone, blocksSkipped int64
	// JSON operators: on the smallest blocks (documents of a few KB)
	jsonSpecs := []string{"tx0 A.v1.1B.0", "tx0 A.v0.S+1.0 B.v1.5S.0"}
	if rep.Tier == "thorough" {
		jsonSpecs = append(jsonSpecs, "tx1 A.v0.3S.0 A.v0.3S.0", "tx2 B.v1.9S.0 A.v0.S+1.0")
	}
	var wg sync.WaitGroup
	for i, s := range jsonSpecs {
		wg.Add(1)
		go func() {
			defer wg.Done()
			spec, _ := vParseBlockSpec(s)
			b, err := vBuildBlock(spec, 1)
			if err != nil {
				rep.Infra(err.Error())
				return
			}
			c.timed("json", func() { c.checkJSON(b, i == 0 || rep.Tier == "thorough") })
		}()
	}

	// data-root tuples
	chain := 6
	if rep.Tier == "thorough" {
		chain = 9
	}
	tupleBlocks := []*vBlock{other}
	for _, s := range []string{"tx0 A.v1.1B.0", "tx0 A.v0.S+1.0 B.v1.5S.0", "tx2 B.v0.9S.0", "tx1 A.v0.S.0 A.v1.S.0", "tx0 C.v0.3S.0 A.v0.3S.0 B.v0.3S.0",
		"tx1 B.v0.5S.0", "tx2 C.v1.2S.0", "tx0 A.v0.17S.0"} {
		spec, _ := vParseBlockSpec(s)
		tb, err := vBuildBlock(spec, 1)
		if err != nil {
			t.Fatalf("VERIF-INFRA-ERROR %v", err)
		}
		tupleBlocks = append(tupleBlocks, tb)
	}
	wg.Add(1)
	go func() {
		defer wg.Done()
		c.timed("tuples", func() {
			c.checkTuples(t, chain, tupleBlocks)
			vTupleJSON(t, c, tupleBlocks)
		})
	}()

	var next int64 = -1
	for w := 0; w < vx.Workers(); w++ {
		wg.Add(1)
		go func() {
			defer wg.Done()
			for {
				i := int(atomic.AddInt64(&next, 1))
				if i >= len(jobs) {
					return
				}
				if time.Now().After(deadline) {
					atomic.AddInt64(&blocksSkipped, 1)
					continue
				}
				j := jobs[i]
				b, err := vBuildBlock(j.spec, 1)
				if err != nil {
					rep.Infra(fmt.Sprintf("block %q: %v", j.spec, err))
					continue
				}
				tamperBlob := func(r *vRefBlob) bool { return !j.wide || j.owns["blob:"+b.blobClass(r)] }
				c.timed("commitment-proofs", func() { c.checkCommitmentProofs(b, other.DataRoot, tamperBlob) })
				c.timed("included", func() { c.checkIncluded(b, tamperBlob) })
				c.timed("ranges", func() { c.checkRanges(b, other.DataRoot, func(k string) bool { return j.owns["range:"+k] }) })
				atomic.AddInt64(&blocksDone, 1)
				st.hist("ods_width", fmt.Sprint(b.W))
				st.hist("blobs", fmt.Sprint(len(b.Refs)))
				if b.Padding > 0 {
					st.hist("blocks_with_layout_padding", "yes")
				}
				if len(b.Refs) >= 2 && b.W <= 16 && b.Padding > 0 {
					c.sample("block", map[string]any{"block": b.Spec.String(), "layout": b.layout(), "reference": vRefSummary(b)})
				}
			}
		}()
	}
	wg.Wait()

	exhaustive := blocksSkipped == 0 && !c.cut.Load()
	rep.Count(c.evals, c.distinct, 0, 0)
	rep.Set("blocks_checked", blocksDone)
	rep.Set("block_specs", map[string]any{"small": len(smallSpecs), "wide": len(wideSpecs), "distinct_squares": len(jobs), "skipped_by_deadline": blocksSkipped})
	rep.Set("small_alphabet", vSampleSpecs(smallSpecs))
	rep.Set("wide_alphabet", vSampleSpecs(wideSpecs))
	rep.Set("header_chain_length", chain)
	secs := map[string]float64{}
	for k, v := range c.cpu {
		secs[k] = float64(int(v.Seconds()*10)) / 10
	}
	rep.Set("busy_seconds_by_subharness", secs)
	rep.Set("outcomes", st.Outcomes)
	rep.Set("distinct_outcomes", len(st.Outcomes))
	rep.Set("histograms", st.Hist)
	rep.Set("bounds_completed", fmt.Sprintf("all listed blocks, all operators (exhaustive=%v)", exhaustive))
	rep.SetExhaustive(exhaustive)
	for _, must := range []string{"cproof:honest-accepted", "cproof:rejected", "included:true", "included:false", "range:honest-accepted", "range:rejected", "tuple:honest-accepted", "tuple:tamper-rejected"} {
		if st.Outcomes[must] == 0 && exhaustive {
			rep.Infra("vacuous exploration: outcome " + must + " never observed")
			t.Fail()
		}
	}
	if rep.Finish() > 0 {
		t.Fail()
	}
}

func vAllBlobs(*vRefBlob) bool { return true }
func vAllClasses(string) bool  { return true }

func vSampleSpecs(s []vBlockSpec) []string {
	var out []string
	for i := 0; i < len(s) && len(out) < 6; i += 1 + len(s)/6 {
		out = append(out, s[i].String())
	}
	return out
}

// vTupleJSON applies the JSON operators to one real tuple proof.
func vTupleJSON(t *testing.T, c *vC12, blocks []*vBlock) {
	st, hs, err := vChain(t, 4, blocks)
	if err != nil {
		c.rep.Infra("cannot build the header chain: " + err.Error())
		return
	}
	ctx := context.Background()
	defer st.Stop(ctx) //nolint:errcheck
	svc := blobstream.NewService(st)
	pf, err := svc.GetDataRootTupleInclusionProof(ctx, 2, 1, 4)
	if err != nil {
		c.rep.Infra("tuple proof for JSON operators: " + err.Error())
		return
	}
	var tuples [][]byte
	for h := 1; h <= 3; h++ {
		tuples = append(tuples, vRefTuple(uint64(h), hs[h-1].DataHash))
	}
	c.checkTupleJSON((*coremerkle.Proof)(pf), coremerkle.HashFromByteSlices(tuples), tuples[1])
}

// vReplayC12 re-executes the sub-harness a replay artefact names on the block it names.
func vReplayC12(t *testing.T, check, spec string, sink vSink) {
	other, err := vBuildBlock(vBlockSpec{Txs: 1, Blobs: []vBlobSpec{{NS: "B", Ver: 0, Size: "3S"}}}, 1)
	if err != nil {
		t.Fatalf("replay: %v", err)
	}
	c := &vC12{rep: vx.NewReport("C12", "fault_enumeration"), st: newVStats(), sink: sink, seen: map[[16]byte]struct{}{}}
	if check == "C12/tuple" {
		n := 6
		fmt.Sscanf(spec, "%d", &n)
		c.checkTuples(t, n, []*vBlock{other})
		vTupleJSON(t, c, []*vBlock{other})
		return
	}
	bs, err := vParseBlockSpec(spec)
	if err != nil {
		t.Fatalf("replay: %v", err)
	}
	b, err := vBuildBlock(bs, 1)
	if err != nil {
		t.Fatalf("replay: %v", err)
	}
	switch {
	case strings.HasPrefix(check, "C12/cproof"):
		c.checkCommitmentProofs(b, other.DataRoot, vAllBlobs)
	case strings.HasPrefix(check, "C12/included"):
		c.checkIncluded(b, vAllBlobs)
	case strings.HasPrefix(check, "C12/range"):
		c.checkRanges(b, other.DataRoot, vAllClasses)
	case strings.HasPrefix(check, "C12/json"):
		c.checkJSON(b, true)
	default:
		t.Fatalf("replay: unknown check %q", check)
	}
}
