package share

// C12 (b): the blob inclusion check. Included(height, ns, proof, commitment) must answer
// (true, nil) exactly when a blob with that commitment is in the block under ns AND the supplied
// proof is the one the node itself derives for it (same entries, same ranges, same nodes);
// anything else is (false, _) or an error, never a panic.
// Also: the proof GetProof hands out is a set of NMT proofs of the namespace's shares in exactly
// the rows the blob occupies, each verifying against the block's row root.

import (
	"bytes"
	"context"
	"crypto/sha256"
	"fmt"
	"strings"

	libshare "github.com/celestiaorg/go-square/v4/share"
	"github.com/celestiaorg/nmt"

	"github.com/celestiaorg/celestia-node/blob"
)

// vRowProofsMatch: p has one entry per row the blob occupies and each entry proves the
// namespace's shares of that row against the block's row root ("" = yes).
func vRowProofsMatch(b *vBlock, loc *vRefBlob, p blob.Proof) string {
	firstRow, lastRow := loc.Start/b.W, (loc.Start+loc.N-1)/b.W
	if len(p) != lastRow-firstRow+1 {
		return fmt.Sprintf("row-count: the blob occupies rows %d..%d but the proof has %d entries", firstRow, lastRow, len(p))
	}
	for k, q := range p {
		row := firstRow + k
		var leaves [][]byte
		for col := 0; col < b.W; col++ {
			s := b.ODS[row*b.W+col]
			if s.Namespace().Equals(loc.NS) {
				leaves = append(leaves, append(append([]byte{}, loc.NS.Bytes()...), s.ToBytes()...))
			}
		}
		if q == nil || !q.VerifyNamespace(sha256.New(), loc.NS.Bytes(), leaves, b.Roots.RowRoots[row]) {
			return fmt.Sprintf("row-proof-does-not-verify: entry %d does not prove the namespace's shares of row %d against the row root", k, row)
		}
	}
	return ""
}

func vProofEqual(a, b blob.Proof) bool {
	if len(a) != len(b) {
		return false
	}
	for i := range a {
		if a[i] == nil || b[i] == nil {
			return false
		}
		if a[i].Start() != b[i].Start() || a[i].End() != b[i].End() || !bytes.Equal(a[i].LeafHash(), b[i].LeafHash()) {
			return false
		}
		an, bn := a[i].Nodes(), b[i].Nodes()
		if len(an) != len(bn) {
			return false
		}
		for j := range an {
			if !bytes.Equal(an[j], bn[j]) {
				return false
			}
		}
	}
	return true
}

type vInclCase struct {
	Op, Detail string
	NS         libshare.Namespace
	Commitment []byte
	P          *blob.Proof
}

func vInclCases(ns libshare.Namespace, commitment []byte, own blob.Proof, donor blob.Proof) []vInclCase {
	var out []vInclCase
	add := func(op, detail string, p *blob.Proof) {
		out = append(out, vInclCase{op, detail, ns, commitment, p})
	}
	add("proof.nil", "", nil)
	for _, m := range vListMuts([]*nmt.Proof(own), []*nmt.Proof(donor), vCloneNmt) {
		p := blob.Proof(m.V)
		add("entries."+m.Name, fmt.Sprint(m.Idx), &p)
	}
	for _, i := range vEnds(len(own)) {
		q := own[i]
		for _, m := range vRangeMuts(q.Start(), q.End()) {
			p := blob.Proof(vCloneNmts(own))
			p[i] = vMkNmt(m.Start, m.End, vCloneBB(q.Nodes()), vCloneB(q.LeafHash()), true)
			add("entry.range-"+m.Name, fmt.Sprint(i), &p)
		}
		for _, m := range vBBMuts(q.Nodes(), nil) {
			p := blob.Proof(vCloneNmts(own))
			p[i] = vMkNmt(q.Start(), q.End(), m.V, vCloneB(q.LeafHash()), true)
			add("entry.nodes-"+m.Name, fmt.Sprintf("%d/%d", i, m.Idx), &p)
		}
		p := blob.Proof(vCloneNmts(own))
		p[i] = vMkNmt(q.Start(), q.End(), vCloneBB(q.Nodes()), bytes.Repeat([]byte{7}, 90), true)
		add("entry.leafhash-set", fmt.Sprint(i), &p)
	}
	return out
}

func (c *vC12) checkIncluded(b *vBlock, tamper func(*vRefBlob) bool) {
	ctx := context.Background()
	svc := vNewBlobService(vNewGetter(b))
	rp := func(op string) any {
		return map[string]any{"check": "C12/included", "spec": b.Spec.String(), "op": op, "layout": b.layout()}
	}
	own := make([]blob.Proof, len(b.Refs))
	for i, r := range b.Refs {
		var p *blob.Proof
		var err error
		if pn := vCatch(func() { p, err = svc.GetProof(ctx, b.Height, r.NS, r.Commitment) }); pn != "" || err != nil || p == nil {
			c.sink("C12/GetProof/no-proof-for-present-blob", fmt.Sprintf("GetProof(%v) = %v %s; block %q", r.Spec, err, pn, b.Spec), rp("produce"))
			continue
		}
		own[i] = *p
		// the proof is about exactly the rows the blob occupies (any copy of byte-identical blobs)
		var why string
		for _, loc := range b.Refs {
			if !loc.NS.Equals(r.NS) || !bytes.Equal(loc.Commitment, r.Commitment) {
				continue
			}
			why = vRowProofsMatch(b, loc, *p)
			if why == "" {
				break
			}
		}
		if why != "" {
			c.st.out("getproof:wrong")
			c.sink("C12/GetProof/"+strings.SplitN(why, ":", 2)[0], fmt.Sprintf("GetProof(%v at ODS %d..%d): %s; block %q layout %s",
				r.Spec, r.Start, r.Start+r.N-1, why, b.Spec, b.layout()), rp("produce"))
		} else {
			c.st.out("getproof:verifies")
		}
	}
	expected := func(ns libshare.Namespace, cm []byte, p *blob.Proof) bool {
		if p == nil {
			return false
		}
		for i, r := range b.Refs {
			if r.NS.Equals(ns) && bytes.Equal(r.Commitment, cm) && own[i] != nil && vProofEqual(*p, own[i]) {
				return true
			}
		}
		return false
	}
	run := func(cs vInclCase, trivial bool) {
		if !c.caseDone(vFPProofCase(b.FP, cs.NS.Bytes(), cs.Commitment, cs.P), !trivial) {
			return
		}
		want := expected(cs.NS, cs.Commitment, cs.P)
		var arg *blob.Proof
		if cs.P != nil {
			cl := blob.Proof(vCloneNmts(*cs.P))
			arg = &cl
		}
		var got bool
		var err error
		if pn := vCatch(func() { got, err = svc.Included(ctx, b.Height, cs.NS, arg, cs.Commitment) }); pn != "" {
			c.st.out("included:panic")
			comp := "Included"
			if cs.P != nil {
				comp = "Proof.equal"
			}
			c.sink(vOpSig(comp, vPanicKind(pn), cs.Op), fmt.Sprintf("Included panicked (%s) on operator %s[%s]; block %q", pn, cs.Op, cs.Detail, b.Spec), rp(cs.Op))
			return
		}
		yes := got && err == nil
		switch {
		case yes && want:
			c.st.out("included:true")
		case !yes && !want:
			if err != nil {
				c.st.out("included:error")
				c.sample("included/error", map[string]any{"block": b.Spec.String(), "operator": cs.Op, "at": cs.Detail, "included": fmt.Sprintf("(%v, %v)", got, err)})
			} else {
				c.st.out("included:false")
				c.sample("included/false", map[string]any{"block": b.Spec.String(), "operator": cs.Op, "at": cs.Detail, "included": "(false, nil)"})
			}
		case yes && !want:
			c.st.out("included:accepted-wrong")
			c.sink(vOpSig("Included", "accepts-proof-it-does-not-derive", cs.Op), fmt.Sprintf("Included = (true, nil) for operator %s[%s]: the supplied proof is not the one the node derives / the blob is not there; block %q layout %s",
				cs.Op, cs.Detail, b.Spec, b.layout()), rp(cs.Op))
		default:
			c.st.out("included:rejected-own")
			c.sink(vOpSig("Included", "rejects-derived-proof", cs.Op), fmt.Sprintf("Included = (%v, %v) for operator %s[%s] although the blob is in the block and the proof equals the derived one; block %q layout %s",
				got, err, cs.Op, cs.Detail, b.Spec, b.layout()), rp(cs.Op))
		}
	}
	for i, r := range b.Refs {
		if own[i] == nil {
			continue
		}
		o := own[i]
		run(vInclCase{"own", "", r.NS, r.Commitment, &o}, false)
		if !tamper(r) || c.expired() {
			continue
		}
		// claim operators with the blob's own proof
		for _, ns := range []libshare.Namespace{vAbsentNS[0], vAbsentNS[2], vNS["A"], vNS["B"], vNS["C"]} {
			if !ns.Equals(r.NS) {
				run(vInclCase{"claim.other-namespace", "", ns, r.Commitment, &o}, false)
			}
		}
		for _, m := range vBytesMuts(r.Commitment) {
			run(vInclCase{"claim.commitment-" + m.Name, "", r.NS, m.V, &o}, false)
		}
		run(vInclCase{"claim.commitment-nil", "", r.NS, nil, &o}, false)
		var donor blob.Proof
		for j, r2 := range b.Refs {
			if j == i || own[j] == nil {
				continue
			}
			// another blob's commitment with this blob's proof, this commitment with another blob's proof
			run(vInclCase{"claim.other-blob-commitment", "", r2.NS, r2.Commitment, &o}, false)
			d := own[j]
			run(vInclCase{"proof.other-blob", "", r.NS, r.Commitment, &d}, false)
			if donor == nil && !vProofEqual(d, o) {
				donor = d
			}
		}
		for _, cs := range vInclCases(r.NS, r.Commitment, o, donor) {
			run(cs, cs.P != nil && vProofEqual(*cs.P, o))
		}
	}
}
