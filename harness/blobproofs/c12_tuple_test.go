package share

// C12 (d): data-root-tuple roots and proofs of the real blobstream.Service over the REAL go-header
// store: for every header range [start,end) of the chain and every height in it the tuple root is
// the merkle root of the reference tuples, the inclusion proof verifies for exactly that height's
// tuple against exactly that range's root, requests outside the documented domain are refused
// without a panic, and tampered proofs / other tuples / other roots do not verify.

import (
	"bytes"
	"context"
	"encoding/binary"
	"encoding/json"
	"fmt"
	"testing"

	ds "github.com/ipfs/go-datastore"
	ds_sync "github.com/ipfs/go-datastore/sync"

	libhead "github.com/celestiaorg/go-header"
	"github.com/celestiaorg/go-header/store"
	coremerkle "github.com/cometbft/cometbft/crypto/merkle"

	"github.com/celestiaorg/celestia-node/header"
	"github.com/celestiaorg/celestia-node/header/headertest"
	"github.com/celestiaorg/celestia-node/nodebuilder/blobstream"
)

// vRefTuple is the independent reference encoding: abi.encode(uint256 height, bytes32 dataRoot).
func vRefTuple(height uint64, dataRoot []byte) []byte {
	out := make([]byte, 64)
	binary.BigEndian.PutUint64(out[24:32], height)
	copy(out[32:], dataRoot)
	return out
}

// vChain builds a chain of n headers (height 1 = the suite's genesis with the empty-square data
// root, heights 2..n carry the data roots of the given blocks) inside a real go-header store.
func vChain(t *testing.T, n int, blocks []*vBlock) (*store.Store[*header.ExtendedHeader], []*header.ExtendedHeader, error) {
	suite := headertest.NewTestSuite(t)
	gen := suite.Head()
	hs := []*header.ExtendedHeader{gen}
	prev := gen
	for h := uint64(2); h <= uint64(n); h++ {
		b := blocks[int(h-2)%len(blocks)]
		rh := suite.GenRawHeader(h, prev.Hash(), libhead.Hash(prev.Commit.Hash()), b.DataRoot)
		eh := &header.ExtendedHeader{RawHeader: *rh, Commit: suite.Commit(rh), ValidatorSet: gen.ValidatorSet, DAH: b.Roots}
		hs = append(hs, eh)
		prev = eh
	}
	ctx := context.Background()
	st, err := store.NewStore[*header.ExtendedHeader](ds_sync.MutexWrap(ds.NewMapDatastore()))
	if err != nil {
		return nil, nil, err
	}
	if err := st.Start(ctx); err != nil {
		return nil, nil, err
	}
	if err := st.Append(ctx, hs...); err != nil {
		return nil, nil, err
	}
	if err := st.Sync(ctx); err != nil {
		return nil, nil, err
	}
	hd, err := st.Head(ctx)
	if err != nil || hd.Height() != uint64(n) {
		return nil, nil, fmt.Errorf("header store head is %v (%v), expected %d", hd, err, n)
	}
	return st, hs, nil
}

func (c *vC12) checkTuples(t *testing.T, n int, blocks []*vBlock) {
	st, hs, err := vChain(t, n, blocks)
	if err != nil {
		c.rep.Infra("cannot build the header chain: " + err.Error())
		t.Fail()
		return
	}
	ctx := context.Background()
	defer st.Stop(ctx) //nolint:errcheck
	svc := blobstream.NewService(st)
	rp := func(op string, height, start, end uint64) any {
		return map[string]any{"check": "C12/tuple", "spec": fmt.Sprint(n), "op": op, "height": height, "start": start, "end": end}
	}
	tuples := make([][]byte, n+1)
	for h := 1; h <= n; h++ {
		tuples[h] = vRefTuple(uint64(h), hs[h-1].DataHash)
	}
	refRoot := func(s, e uint64) []byte { return coremerkle.HashFromByteSlices(tuples[s:e]) }

	head := uint64(n)
	for start := uint64(0); start <= head+2; start++ {
		for end := uint64(0); end <= head+3; end++ {
			if c.expired() {
				return
			}
			valid := start >= 1 && start < end && end <= head+1
			var root []byte
			var rerr error
			if pn := vCatch(func() { root, rerr = svc.GetDataRootTupleRoot(ctx, start, end) }); pn != "" {
				c.st.out("tuple:root-panic")
				c.sink("C12/blobstream/GetDataRootTupleRoot/panic", fmt.Sprintf("GetDataRootTupleRoot(%d,%d) panicked: %s (chain head %d)", start, end, pn, head), rp("root", 0, start, end))
				continue
			}
			c.caseDone(newVFPs("tuple-root", n, start, end), true)
			switch {
			case valid && rerr != nil:
				c.st.out("tuple:valid-range-refused")
				sig := "C12/blobstream/valid-range-refused"
				if end == start+1 {
					sig = "C12/blobstream/single-height-range-refused"
				}
				c.sink(sig, fmt.Sprintf("GetDataRootTupleRoot(%d,%d) = %v although 1 <= start < end <= head+1 (head %d)", start, end, rerr, head), rp("root", 0, start, end))
			case valid && !bytes.Equal(root, refRoot(start, end)):
				c.st.out("tuple:wrong-root")
				c.sink("C12/blobstream/wrong-tuple-root", fmt.Sprintf("GetDataRootTupleRoot(%d,%d) = %x, reference %x", start, end, []byte(root), refRoot(start, end)), rp("root", 0, start, end))
			case valid:
				c.st.out("tuple:root-ok")
			case rerr == nil:
				c.st.out("tuple:invalid-range-answered")
				c.sink("C12/blobstream/invalid-range-answered", fmt.Sprintf("GetDataRootTupleRoot(%d,%d) answered although the range is outside [1, head+1] or empty (head %d)", start, end, head), rp("root", 0, start, end))
			default:
				c.st.out("tuple:invalid-range-refused")
			}
			for height := uint64(0); height <= head+2; height++ {
				pvalid := valid && height >= start && height < end
				var pf *blobstream.DataRootTupleInclusionProof
				var perr error
				if pn := vCatch(func() { pf, perr = svc.GetDataRootTupleInclusionProof(ctx, height, start, end) }); pn != "" {
					c.st.out("tuple:proof-panic")
					c.sink("C12/blobstream/GetDataRootTupleInclusionProof/panic", fmt.Sprintf("GetDataRootTupleInclusionProof(height %d, [%d,%d)) panicked: %s (head %d)", height, start, end, pn, head), rp("proof", height, start, end))
					continue
				}
				c.caseDone(newVFPs("tuple-proof", n, start, end, height), true)
				switch {
				case !pvalid && perr == nil && pf != nil:
					c.st.out("tuple:invalid-request-answered")
					c.sink("C12/blobstream/invalid-request-answered", fmt.Sprintf("GetDataRootTupleInclusionProof(height %d, [%d,%d)) answered although the request is invalid (head %d)", height, start, end, head), rp("proof", height, start, end))
					continue
				case !pvalid:
					c.st.out("tuple:invalid-request-refused")
					continue
				case perr != nil || pf == nil:
					c.st.out("tuple:valid-request-refused")
					sig := "C12/blobstream/valid-request-refused"
					if end == start+1 {
						sig = "C12/blobstream/single-height-range-refused"
					}
					c.sink(sig, fmt.Sprintf("GetDataRootTupleInclusionProof(height %d, [%d,%d)) = %v (head %d)", height, start, end, perr, head), rp("proof", height, start, end))
					continue
				}
				mp := (*coremerkle.Proof)(pf)
				want := refRoot(start, end)
				if err := mp.Verify(want, tuples[height]); err != nil {
					c.st.out("tuple:honest-rejected")
					c.sink("C12/blobstream/proof-does-not-verify", fmt.Sprintf("the proof for height %d in [%d,%d) does not verify against the reference root and tuple: %v", height, start, end, err), rp("proof", height, start, end))
					continue
				}
				if mp.Total != int64(end-start) || mp.Index != int64(height-start) {
					c.sink("C12/blobstream/proof-for-another-position", fmt.Sprintf("the proof for height %d in [%d,%d) has index %d of %d", height, start, end, mp.Index, mp.Total), rp("proof", height, start, end))
					continue
				}
				c.st.out("tuple:honest-accepted")
				// tampered presentations must not verify
				pairTrue := func(root, leaf []byte) bool {
					for s2 := uint64(1); s2 <= head; s2++ {
						for e2 := s2 + 1; e2 <= head+1; e2++ {
							if !bytes.Equal(root, refRoot(s2, e2)) {
								continue
							}
							for h2 := s2; h2 < e2; h2++ {
								if bytes.Equal(leaf, tuples[h2]) {
									return true
								}
							}
						}
					}
					return false
				}
				try := func(op string, p *coremerkle.Proof, root, leaf []byte) {
					if !c.caseDone(newVFPs("tuple-tamper", n, start, end, height, op, p.Total, p.Index, p.LeafHash, p.Aunts, root, leaf), true) {
						return
					}
					var err error
					if pn := vCatch(func() { err = p.Verify(root, leaf) }); pn != "" {
						c.st.out("tuple:tamper-panic")
						c.sink(vOpSig("blobstream/tuple-proof.Verify", vPanicKind(pn), op), fmt.Sprintf("verifying the proof for height %d in [%d,%d) with operator %s panicked: %s", height, start, end, op, pn), rp(op, height, start, end))
						return
					}
					if err == nil && pairTrue(root, leaf) {
						// the proof's own labels changed, the statement (this tuple is under this root) did not
						c.st.out("tuple:tamper-accepted-true-claim")
						c.st.hist("tuple_accepted_true_claim_ops", op)
						return
					}
					if err == nil {
						c.st.out("tuple:tamper-accepted")
						c.sink(vOpSig("blobstream/tuple-proof.Verify", "accepts-false-claim", op), fmt.Sprintf("the proof for height %d in [%d,%d) verifies under operator %s", height, start, end, op), rp(op, height, start, end))
						return
					}
					c.st.out("tuple:tamper-rejected")
					c.sample("tuple/rejected", map[string]any{"chain": n, "range": []uint64{start, end}, "height": height, "operator": op, "verify": err.Error()})
				}
				cl := func() *coremerkle.Proof { return vCloneCoreProofs([]*coremerkle.Proof{mp})[0] }
				for h2 := uint64(1); h2 <= head; h2++ {
					if h2 != height {
						try("leaf.other-height", cl(), want, tuples[h2])
					}
				}
				try("leaf.height+1-same-root", cl(), want, vRefTuple(height+1, hs[height-1].DataHash))
				try("leaf.same-height-other-root", cl(), want, vRefTuple(height, bytes.Repeat([]byte{9}, 32)))
				for s2 := uint64(1); s2 <= head; s2++ {
					for e2 := s2 + 1; e2 <= head+1; e2++ {
						if s2 != start || e2 != end {
							try("root.other-range", cl(), refRoot(s2, e2), tuples[height])
						}
					}
				}
				for _, m := range vBytesMuts(want) {
					try("root."+m.Name, cl(), m.V, tuples[height])
				}
				ent := func(name string, f func(x *coremerkle.Proof)) {
					p := cl()
					f(p)
					try("proof."+name, p, want, tuples[height])
				}
				ent("index+1", func(x *coremerkle.Proof) { x.Index++ })
				ent("index-1", func(x *coremerkle.Proof) { x.Index-- })
				ent("total+1", func(x *coremerkle.Proof) { x.Total++ })
				ent("total-1", func(x *coremerkle.Proof) { x.Total-- })
				ent("total=0", func(x *coremerkle.Proof) { x.Total = 0 })
				ent("leafhash-nil", func(x *coremerkle.Proof) { x.LeafHash = nil })
				for _, m := range vBytesMuts(mp.LeafHash) {
					v := m.V
					ent("leafhash-"+m.Name, func(x *coremerkle.Proof) { x.LeafHash = v })
				}
				for _, m := range vBBMuts(mp.Aunts, [][]byte{mp.LeafHash}) {
					v := m.V
					ent("aunts-"+m.Name, func(x *coremerkle.Proof) { x.Aunts = v })
				}
				// degenerate proofs: total / index at zero, negative and wrap-around values, the aunts
				// trimmed to every matching (possibly zero) length, the leaf hash kept / dropped; against
				// the range's root, the root of the empty tree (the "root recomputed over the emptied
				// parts"), the one-leaf root of this very tuple and two unrelated roots; also through JSON
				emptyRoot := coremerkle.HashFromByteSlices(nil)
				dRoots := append([][]byte{want, emptyRoot, refRoot(height, height+1)}, vUnrelatedRoots...)
				const maxI = int64(^uint64(0) >> 1)
				for _, tot := range []int64{0, 1, -1, maxI, -maxI - 1, 1 << 32, int64(len(mp.Aunts))} {
					for _, idx := range []int64{0, -1, tot - 1, tot, maxI, mp.Index} {
						for _, keep := range []int{0, len(mp.Aunts) - 1, len(mp.Aunts)} {
							if keep < 0 {
								continue
							}
							for _, lh := range [][]byte{mp.LeafHash, nil, {}} {
								dp := &coremerkle.Proof{Total: tot, Index: idx, LeafHash: vCloneB(lh), Aunts: vCloneBB(mp.Aunts[:keep])}
								if keep == 0 {
									dp.Aunts = nil
								}
								c.st.hist("degenerate_cases", "tuple-proof")
								for _, rt := range dRoots {
									try("degenerate.fields-and-trimmed-aunts", dp, rt, tuples[height])
								}
								// the same proof through its JSON form, against the range's root and the empty root
								if doc, err := json.Marshal(dp); err == nil {
									var back coremerkle.Proof
									if json.Unmarshal(doc, &back) == nil {
										try("degenerate.fields-and-trimmed-aunts+json", &back, want, tuples[height])
										try("degenerate.fields-and-trimmed-aunts+json", &back, emptyRoot, tuples[height])
									}
								}
							}
						}
					}
				}
			}
		}
	}
	// the limit on the number of blocks per commitment
	var lerr error
	if pn := vCatch(func() { _, lerr = svc.GetDataRootTupleRoot(ctx, 1, 10_002) }); pn != "" || lerr == nil {
		c.sink("C12/blobstream/oversized-range-not-refused", fmt.Sprintf("GetDataRootTupleRoot(1,10002) = %v %s", lerr, pn), rp("root", 0, 1, 10_002))
	}
}

// newVFPs fingerprints a heterogeneous case description.
func newVFPs(tag string, parts ...any) [16]byte {
	f := newVFP(tag)
	for _, p := range parts {
		switch x := p.(type) {
		case int:
			f.i(int64(x))
		case int64:
			f.i(x)
		case uint64:
			f.i(int64(x))
		case string:
			f.s(x)
		case []byte:
			f.b(x)
		case [][]byte:
			f.bb(x)
		default:
			f.s(fmt.Sprint(x))
		}
	}
	return f.sum()
}
