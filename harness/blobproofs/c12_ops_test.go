package share

// Tamper-operator alphabet shared by the C12 sub-harnesses: generic list operators (append, drop,
// reorder, substitute a donor's part, nil / short components), element operators on byte strings,
// deep copies and canonical fingerprints of the proof types.

import (
	"crypto/sha256"
	"encoding/binary"
	"fmt"
	"hash"
	"strings"

	appproof "github.com/celestiaorg/celestia-app/v9/pkg/proof"
	"github.com/celestiaorg/nmt"
	coremerkle "github.com/cometbft/cometbft/crypto/merkle"
	tmbytes "github.com/cometbft/cometbft/libs/bytes"
	tmproto "github.com/cometbft/cometbft/proto/tendermint/types"
	coretypes "github.com/cometbft/cometbft/types"

	"github.com/celestiaorg/celestia-node/blob"
)

// ---------------------------------------------------------------- deep copies

func vCloneB(b []byte) []byte {
	if b == nil {
		return nil
	}
	return append([]byte{}, b...)
}

func vCloneBB(x [][]byte) [][]byte {
	if x == nil {
		return nil
	}
	out := make([][]byte, len(x))
	for i := range x {
		out[i] = vCloneB(x[i])
	}
	return out
}

func vMkNmt(start, end int, nodes [][]byte, leafHash []byte, ignoreMax bool) *nmt.Proof {
	var q nmt.Proof
	if len(leafHash) > 0 {
		q = nmt.NewAbsenceProof(start, end, nodes, leafHash, ignoreMax)
	} else {
		q = nmt.NewInclusionProof(start, end, nodes, ignoreMax)
	}
	return &q
}

func vCloneNmt(p *nmt.Proof) *nmt.Proof {
	if p == nil {
		return nil
	}
	return vMkNmt(p.Start(), p.End(), vCloneBB(p.Nodes()), vCloneB(p.LeafHash()), p.IsMaxNamespaceIDIgnored())
}

func vCloneNmts(x []*nmt.Proof) []*nmt.Proof {
	if x == nil {
		return nil
	}
	out := make([]*nmt.Proof, len(x))
	for i := range x {
		out[i] = vCloneNmt(x[i])
	}
	return out
}

func vCloneAppProofs(x []*appproof.Proof) []*appproof.Proof {
	if x == nil {
		return nil
	}
	out := make([]*appproof.Proof, len(x))
	for i, p := range x {
		if p != nil {
			out[i] = &appproof.Proof{Total: p.Total, Index: p.Index, LeafHash: vCloneB(p.LeafHash), Aunts: vCloneBB(p.Aunts)}
		}
	}
	return out
}

func vCloneCP(p *blob.CommitmentProof) *blob.CommitmentProof {
	return &blob.CommitmentProof{
		SubtreeRoots:      vCloneBB(p.SubtreeRoots),
		SubtreeRootProofs: vCloneNmts(p.SubtreeRootProofs),
		NamespaceID:       vCloneB(p.NamespaceID),
		NamespaceVersion:  p.NamespaceVersion,
		RowProof: appproof.RowProof{
			RowRoots: vCloneBB(p.RowProof.RowRoots), Proofs: vCloneAppProofs(p.RowProof.Proofs), Root: vCloneB(p.RowProof.Root),
			StartRow: p.RowProof.StartRow, EndRow: p.RowProof.EndRow,
		},
	}
}

func vCloneCoreProofs(x []*coremerkle.Proof) []*coremerkle.Proof {
	if x == nil {
		return nil
	}
	out := make([]*coremerkle.Proof, len(x))
	for i, p := range x {
		if p != nil {
			out[i] = &coremerkle.Proof{Total: p.Total, Index: p.Index, LeafHash: vCloneB(p.LeafHash), Aunts: vCloneBB(p.Aunts)}
		}
	}
	return out
}

func vCloneNMTProtos(x []*tmproto.NMTProof) []*tmproto.NMTProof {
	if x == nil {
		return nil
	}
	out := make([]*tmproto.NMTProof, len(x))
	for i, p := range x {
		if p != nil {
			out[i] = &tmproto.NMTProof{Start: p.Start, End: p.End, Nodes: vCloneBB(p.Nodes), LeafHash: vCloneB(p.LeafHash)}
		}
	}
	return out
}

func vCloneRange(r *GetRangeResult) *GetRangeResult {
	out := &GetRangeResult{Shares: append(r.Shares[:0:0], r.Shares...)}
	if r.Proof != nil {
		p := r.Proof
		rr := make([]tmbytes.HexBytes, len(p.RowProof.RowRoots))
		for i := range rr {
			rr[i] = vCloneB(p.RowProof.RowRoots[i])
		}
		out.Proof = &coretypes.ShareProof{
			Data: vCloneBB(p.Data), ShareProofs: vCloneNMTProtos(p.ShareProofs), NamespaceID: vCloneB(p.NamespaceID),
			NamespaceVersion: p.NamespaceVersion,
			RowProof: coretypes.RowProof{RowRoots: rr, Proofs: vCloneCoreProofs(p.RowProof.Proofs),
				StartRow: p.RowProof.StartRow, EndRow: p.RowProof.EndRow},
		}
	}
	return out
}

// ---------------------------------------------------------------- canonical fingerprints

type vFP struct{ h hash.Hash }

func newVFP(tag string) *vFP {
	f := &vFP{h: sha256.New()}
	f.s(tag)
	return f
}
func (f *vFP) i(n int64) {
	var b [8]byte
	binary.BigEndian.PutUint64(b[:], uint64(n))
	f.h.Write(b[:])
}
func (f *vFP) s(x string) { f.i(int64(len(x))); f.h.Write([]byte(x)) }
func (f *vFP) b(x []byte) {
	if x == nil {
		f.i(-1)
		return
	}
	f.i(int64(len(x)))
	f.h.Write(x)
}
func (f *vFP) bb(x [][]byte) {
	if x == nil {
		f.i(-1)
		return
	}
	f.i(int64(len(x)))
	for _, e := range x {
		f.b(e)
	}
}
func (f *vFP) nmt(p *nmt.Proof) {
	if p == nil {
		f.i(-7)
		return
	}
	f.i(int64(p.Start()))
	f.i(int64(p.End()))
	f.bb(p.Nodes())
	f.b(p.LeafHash())
}
func (f *vFP) sum() [16]byte {
	var out [16]byte
	copy(out[:], f.h.Sum(nil))
	return out
}

func vFPCommitmentCase(blockFP string, root, commitment []byte, p *blob.CommitmentProof) [16]byte {
	f := newVFP("cp")
	f.s(blockFP)
	f.b(root)
	f.b(commitment)
	f.bb(p.SubtreeRoots)
	f.i(int64(len(p.SubtreeRootProofs)))
	for _, q := range p.SubtreeRootProofs {
		f.nmt(q)
	}
	f.b(p.NamespaceID)
	f.i(int64(p.NamespaceVersion))
	f.bb(p.RowProof.RowRoots)
	f.i(int64(len(p.RowProof.Proofs)))
	for _, q := range p.RowProof.Proofs {
		if q == nil {
			f.i(-7)
			continue
		}
		f.i(q.Total)
		f.i(q.Index)
		f.b(q.LeafHash)
		f.bb(q.Aunts)
	}
	f.i(int64(p.RowProof.StartRow))
	f.i(int64(p.RowProof.EndRow))
	return f.sum()
}

func vFPProofCase(blockFP string, ns, commitment []byte, p *blob.Proof) [16]byte {
	f := newVFP("incl")
	f.s(blockFP)
	f.b(ns)
	f.b(commitment)
	if p == nil {
		f.i(-9)
		return f.sum()
	}
	f.i(int64(len(*p)))
	for _, q := range *p {
		f.nmt(q)
	}
	return f.sum()
}

func vFPRangeCase(blockFP string, root []byte, r *GetRangeResult) [16]byte {
	f := newVFP("rng")
	f.s(blockFP)
	f.b(root)
	f.i(int64(len(r.Shares)))
	for _, s := range r.Shares {
		f.b(s.ToBytes())
	}
	if r.Proof == nil {
		f.i(-9)
		return f.sum()
	}
	p := r.Proof
	f.bb(p.Data)
	f.i(int64(len(p.ShareProofs)))
	for _, q := range p.ShareProofs {
		if q == nil {
			f.i(-7)
			continue
		}
		f.i(int64(q.Start))
		f.i(int64(q.End))
		f.bb(q.Nodes)
		f.b(q.LeafHash)
	}
	f.b(p.NamespaceID)
	f.i(int64(p.NamespaceVersion))
	f.i(int64(len(p.RowProof.RowRoots)))
	for _, q := range p.RowProof.RowRoots {
		f.b(q)
	}
	f.i(int64(len(p.RowProof.Proofs)))
	for _, q := range p.RowProof.Proofs {
		if q == nil {
			f.i(-7)
			continue
		}
		f.i(q.Total)
		f.i(q.Index)
		f.b(q.LeafHash)
		f.bb(q.Aunts)
	}
	f.i(int64(p.RowProof.StartRow))
	f.i(int64(p.RowProof.EndRow))
	return f.sum()
}

// ---------------------------------------------------------------- generic list operators

type vListMut[T any] struct {
	Name string
	Idx  int
	V    []T
}

// vListMuts enumerates the structural operators on a list: append (own / donor element), drop,
// reorder, substitute a donor element, empty, and a zero element (nil pointer / nil bytes) at
// every position. clone must deep-copy one element.
func vListMuts[T any](x []T, donor []T, clone func(T) T) []vListMut[T] {
	cp := func() []T {
		out := make([]T, len(x))
		for i := range x {
			out[i] = clone(x[i])
		}
		return out
	}
	var zero T
	var out []vListMut[T]
	add := func(name string, idx int, v []T) { out = append(out, vListMut[T]{name, idx, v}) }
	if len(x) > 0 {
		add("append-dup-last", -1, append(cp(), clone(x[len(x)-1])))
		add("prepend-dup-first", -1, append([]T{clone(x[0])}, cp()...))
		add("drop-last", -1, cp()[:len(x)-1])
		add("drop-first", -1, cp()[1:])
		add("empty", -1, []T{})
		add("nil-list", -1, nil)
	}
	if len(donor) > 0 {
		add("append-donor", -1, append(cp(), clone(donor[0])))
		if len(x) > 0 {
			for _, i := range vEnds(len(x)) {
				v := cp()
				v[i] = clone(donor[len(donor)-1])
				add("substitute-donor", i, v)
			}
		}
	}
	add("append-zero", -1, append(cp(), zero))
	if len(x) >= 2 {
		v := cp()
		v[0], v[1] = v[1], v[0]
		add("swap-first-two", -1, v)
		v = cp()
		for i, j := 0, len(v)-1; i < j; i, j = i+1, j-1 {
			v[i], v[j] = v[j], v[i]
		}
		if len(x) > 2 {
			add("reverse", -1, v)
		}
	}
	for i := range x {
		v := cp()
		v[i] = zero
		add("zero-elem", i, v)
	}
	return out
}

// vEnds returns the first and the last index of a list of n (n>=1) elements.
func vEnds(n int) []int {
	if n <= 1 {
		return []int{0}
	}
	return []int{0, n - 1}
}

type vBytesMut struct {
	Name string
	V    []byte
}

// vBytesMuts: element operators on one byte string (a hash, a node, a share, a commitment).
func vBytesMuts(x []byte) []vBytesMut {
	var out []vBytesMut
	if len(x) > 0 {
		a := vCloneB(x)
		a[0] ^= 1
		out = append(out, vBytesMut{"flip-first-byte", a})
		a = vCloneB(x)
		a[len(a)-1] ^= 0x80
		out = append(out, vBytesMut{"flip-last-byte", a})
		out = append(out, vBytesMut{"truncate-1", vCloneB(x)[:len(x)-1]})
		out = append(out, vBytesMut{"empty", []byte{}})
	}
	out = append(out, vBytesMut{"extend-1", append(vCloneB(x), 0)})
	return out
}

// vResplitMuts: operators that keep the CONCATENATION of a list of byte strings but change its
// partition. For every adjacent pair (i,i+1) (all pairs of lists of <= 6 elements, else the first,
// middle and last pair), count unchanged: move one byte, move all but one byte, move the whole
// element across the boundary, in both directions; count-changing, at the first and last pair:
// merge the two elements into one; and at the first and last element: split it in two.
func vResplitMuts(x [][]byte) []vListMut[[]byte] {
	var out []vListMut[[]byte]
	n := len(x)
	if n == 0 {
		return nil
	}
	pairs := []int{}
	if n-1 <= 5 {
		for i := 0; i+1 < n; i++ {
			pairs = append(pairs, i)
		}
	} else {
		pairs = []int{0, (n - 1) / 2, n - 2}
	}
	add := func(name string, i int, v [][]byte) { out = append(out, vListMut[[]byte]{"resplit-" + name, i, v}) }
	for _, i := range pairs {
		a, b := x[i], x[i+1]
		cut := func(name string, k int) { // the boundary moves to offset k of a||b
			ab := append(vCloneB(a), b...)
			if k < 0 || k > len(ab) || k == len(a) {
				return
			}
			v := vCloneBB(x)
			v[i], v[i+1] = append([]byte{}, ab[:k]...), append([]byte{}, ab[k:]...)
			add(name, i, v)
		}
		cut("move-1-byte-right", len(a)-1)
		cut("move-1-byte-left", len(a)+1)
		cut("move-all-but-1-right", 1)
		cut("move-all-but-1-left", len(a)+len(b)-1)
		cut("move-whole-right", 0)
		cut("move-whole-left", len(a)+len(b))
	}
	for _, i := range vEnds(n) {
		if i+1 < n {
			v := append(vCloneBB(x[:i]), append(vCloneB(x[i]), x[i+1]...))
			v = append(v, vCloneBB(x[i+2:])...)
			add("merge-pair", i, v)
		}
		if len(x[i]) >= 2 {
			h := len(x[i]) / 2
			v := append(vCloneBB(x[:i]), vCloneB(x[i][:h]), vCloneB(x[i][h:]))
			v = append(v, vCloneBB(x[i+1:])...)
			add("split-elem", i, v)
		}
	}
	return out
}

// vBBMuts: list operators, element operators on the first and last element, re-split operators.
func vBBMuts(x, donor [][]byte) []vListMut[[]byte] {
	out := append(vListMuts(x, donor, vCloneB), vResplitMuts(x)...)
	if len(x) > 0 {
		for _, i := range vEnds(len(x)) {
			for _, m := range vBytesMuts(x[i]) {
				v := vCloneBB(x)
				v[i] = m.V
				out = append(out, vListMut[[]byte]{"elem-" + m.Name, i, v})
			}
		}
	}
	return out
}

// vRangeMut: operators on a proof's leaf range.
type vRangeMut struct {
	Name       string
	Start, End int
}

// vUnrelatedRoots: two 32-byte roots that belong to no block and no header range of any run.
var vUnrelatedRoots = func() [][]byte {
	a := sha256.Sum256([]byte("verif-unrelated-root-1"))
	b := sha256.Sum256([]byte("verif-unrelated-root-2"))
	return [][]byte{a[:], b[:]}
}()

// vWrapSpans: (StartRow, EndRow) pairs whose uint32 difference EndRow-StartRow+1 wraps to want rows
// although the span is inverted or covers the whole index space.
func vWrapSpans(want uint32) [][2]uint32 {
	max := ^uint32(0)
	return [][2]uint32{
		{1, want},           // start > end by one (want == 0), or a plain shifted span
		{max, want - 2},     // MaxUint32 .. want-2 : wraps to want
		{max - 1, want - 3}, // the same one lower
		{5, 4 + want},       // inverted by one at another offset (want == 0)
		{0, want - 1},       // want == 0: 0 .. MaxUint32, difference+1 wraps to 0
	}
}

func vRangeMuts(start, end int) []vRangeMut {
	return []vRangeMut{
		{"start-past-end-by-one", end + 1, end}, {"max-int32-end", start, 1<<31 - 1}, {"min-int32-start", -(1 << 31), end},
		{"negative-both", -2, -1},
		{"start-1", start - 1, end}, {"start+1", start + 1, end}, {"end-1", start, end - 1}, {"end+1", start, end + 1},
		{"shift+1", start + 1, end + 1}, {"shift-1", start - 1, end - 1}, {"empty-range", start, start}, {"inverted", end, start},
		{"negative-start", -1, end}, {"far-end", start, 1 << 12}, {"zero-zero", 0, 0},
	}
}

// vOpSig names the mechanism, not the individual operator: component / kind / the part of the
// input the operator touched (first segment of the operator name).
func vOpSig(component, kind, op string) string {
	target := op
	if i := strings.IndexByte(op, '.'); i > 0 {
		target = op[:i]
	}
	return fmt.Sprintf("C12/%s/%s@%s", component, kind, target)
}

// vPanicKind classifies a recovered panic value.
func vPanicKind(p string) string {
	switch {
	case strings.Contains(p, "nil pointer"):
		return "panic-nil-deref"
	case strings.Contains(p, "out of range"):
		return "panic-index-out-of-range"
	default:
		return "panic-other"
	}
}
