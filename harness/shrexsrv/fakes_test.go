package shrex

// Fakes of the C09 harness: an in-memory libp2p host / stream pair on which the REAL shrex
// Server handlers (registered by the real Server.Start) and the REAL Client run, plus a
// recording resource scope and a counting wrapper around the real store.
//
// Nothing here decides anything about the property: the fakes only transport bytes,
// record what the server did to its stream / scope / accessor, and apply the fault the
// enumerator picked for this exchange.

import (
	"context"
	"errors"
	"fmt"
	"io"
	"os"
	"runtime"
	"strings"
	"sync"
	"time"

	"github.com/libp2p/go-libp2p/core/host"
	"github.com/libp2p/go-libp2p/core/network"
	"github.com/libp2p/go-libp2p/core/peer"
	"github.com/libp2p/go-libp2p/core/protocol"
	ma "github.com/multiformats/go-multiaddr"

	libshare "github.com/celestiaorg/go-square/v4/share"
	"github.com/celestiaorg/rsmt2d"

	"github.com/celestiaorg/celestia-node/share"
	"github.com/celestiaorg/celestia-node/share/eds"
	"github.com/celestiaorg/celestia-node/share/shwap"
	"github.com/celestiaorg/celestia-node/store"
)

// ---------------------------------------------------------------------------
// one direction of a stream

type pipeHalf struct {
	mu         sync.Mutex
	buf        []byte
	wclosed    bool          // writer closed its side: EOF after buf
	rerr       error         // reset: delivered to the reader at once
	werr       error         // reset: delivered to the writer at once
	readClosed bool          // reader closed its side: reads fail, writes are dropped
	rdl        time.Time     // read deadline (enforced only when enforce is set)
	enforce    bool          // honour deadlines (bubble mode only, fake clock)
	wake       chan struct{} // closed and replaced on every state change
}

func newPipeHalf(enforce bool) *pipeHalf {
	return &pipeHalf{wake: make(chan struct{}), enforce: enforce}
}

// signal must be called with mu held.
func (p *pipeHalf) signal() {
	close(p.wake)
	p.wake = make(chan struct{})
}

func (p *pipeHalf) read(b []byte) (int, error) {
	for {
		p.mu.Lock()
		switch {
		case p.rerr != nil:
			err := p.rerr
			p.mu.Unlock()
			return 0, err
		case p.readClosed:
			p.mu.Unlock()
			return 0, errors.New("fake stream: read on a stream closed for reading")
		case len(p.buf) > 0:
			n := copy(b, p.buf)
			p.buf = p.buf[n:]
			p.mu.Unlock()
			return n, nil
		case p.wclosed:
			p.mu.Unlock()
			return 0, io.EOF
		}
		if len(b) == 0 {
			p.mu.Unlock()
			return 0, nil
		}
		w := p.wake
		var timer *time.Timer
		var tc <-chan time.Time
		if p.enforce && !p.rdl.IsZero() {
			d := time.Until(p.rdl)
			if d <= 0 {
				p.mu.Unlock()
				return 0, os.ErrDeadlineExceeded
			}
			timer = time.NewTimer(d)
			tc = timer.C
		}
		p.mu.Unlock()
		select {
		case <-w:
		case <-tc:
		}
		if timer != nil {
			timer.Stop()
		}
	}
}

// ---------------------------------------------------------------------------
// what the server side of one exchange did

type exchange struct {
	proto protocol.ID

	mu            sync.Mutex
	written       []byte   // every byte the server wrote (status message + payload)
	writes        int      // server Write calls
	resets        []uint32 // codes of Reset (0) / ResetWithError calls by the server
	resetInPanic  int      // Reset calls issued while a panic was unwinding (recovery middleware)
	closed        int      // server Close calls
	closeRead     int
	closeWrite    int
	readDeadlines int
	setService    int
	reserved      []int // sizes of accepted reservations
	denied        []int // sizes of denied reservations
	released      []int
	opens, closes int // accessor opens / closes through the store wrapper

	leftOpen bool         // the handler returned without closing or resetting its stream
	escaped any           // panic that escaped the registered handler (would kill the node)
	done    chan struct{} // handler returned

	// faults picked by the enumerator for this exchange
	fault fault
}

func (e *exchange) event() int64 {
	e.mu.Lock()
	defer e.mu.Unlock()
	return int64(e.writes + len(e.resets) + e.closed + e.closeRead + e.closeWrite + e.setService +
		len(e.reserved) + len(e.denied) + len(e.released) + e.opens + e.closes)
}

// fault is one element of the fault alphabet.
type fault struct {
	Name string
	// memory reservations: "" accept all, "deny" reject all, "limit" reject above memLimit
	mem string
	// the k-th server Write (1-based) and every later one fails without delivering anything
	failWriteAt int
	// store / accessor faults
	storeErr bool   // GetByHeight fails with an error that is not ErrNotFound
	sizeErr  bool   // accessor.Size fails
	accPanic string // "data": every data method of the accessor panics; "size": Size panics
	svcErr   bool   // Scope().SetService fails
}

// memLimit is the largest single reservation the "limit" policy grants: the full ODS of the
// largest square the network allows (what limits.go sizes its per-stream budget with).
const memLimit = 512 * 512 * 512

var faultAlphabet = []fault{
	{Name: "none"},
	{Name: "mem-deny", mem: "deny"},
	{Name: "write-fail-1", failWriteAt: 1},
	{Name: "write-fail-2", failWriteAt: 2},
	{Name: "store-err", storeErr: true},
	{Name: "size-err", sizeErr: true},
	{Name: "acc-panic", accPanic: "data"},
	{Name: "size-panic", accPanic: "size"},
	{Name: "svc-err", svcErr: true},
}

func faultByName(n string) (fault, bool) {
	if n == "mem-limit" {
		return fault{Name: "mem-limit", mem: "limit"}, true
	}
	for _, f := range faultAlphabet {
		if f.Name == n {
			return f, true
		}
	}
	return fault{}, false
}

// ---------------------------------------------------------------------------
// stream

type fstream struct {
	server bool
	start  func() // client side: hands the server end to the handler (once), see fhost.NewStream
	in     *pipeHalf // we read from it
	out    *pipeHalf // we write to it
	ex     *exchange
	conn   *fconn
	proto  protocol.ID
}

var _ network.Stream = (*fstream)(nil)

func (s *fstream) Read(b []byte) (int, error) {
	if s.start != nil {
		s.start()
	}
	return s.in.read(b)
}

func (s *fstream) Write(b []byte) (int, error) {
	if s.start != nil {
		defer s.start()
	}
	if s.server {
		s.ex.mu.Lock()
		s.ex.writes++
		k := s.ex.writes
		fa := s.ex.fault.failWriteAt
		s.ex.mu.Unlock()
		if fa > 0 && k >= fa {
			return 0, errors.New("fake stream: injected write failure")
		}
	}
	p := s.out
	p.mu.Lock()
	defer p.mu.Unlock()
	switch {
	case p.werr != nil:
		return 0, p.werr
	case p.wclosed:
		return 0, errors.New("fake stream: write on a stream closed for writing")
	}
	if s.server {
		s.ex.mu.Lock()
		s.ex.written = append(s.ex.written, b...)
		s.ex.mu.Unlock()
	}
	if !p.readClosed {
		p.buf = append(p.buf, b...)
		p.signal()
	}
	return len(b), nil
}

func (s *fstream) CloseWrite() error {
	if s.start != nil {
		defer s.start()
	}
	if s.server {
		s.ex.mu.Lock()
		s.ex.closeWrite++
		s.ex.mu.Unlock()
	}
	p := s.out
	p.mu.Lock()
	p.wclosed = true
	p.signal()
	p.mu.Unlock()
	return nil
}

func (s *fstream) CloseRead() error {
	if s.server {
		s.ex.mu.Lock()
		s.ex.closeRead++
		s.ex.mu.Unlock()
	}
	p := s.in
	p.mu.Lock()
	p.readClosed = true
	p.buf = nil
	p.signal()
	p.mu.Unlock()
	return nil
}

func (s *fstream) Close() error {
	if s.start != nil {
		defer s.start()
	}
	if s.server {
		s.ex.mu.Lock()
		s.ex.closed++
		s.ex.mu.Unlock()
	}
	p := s.out
	p.mu.Lock()
	p.wclosed = true
	p.signal()
	p.mu.Unlock()
	p = s.in
	p.mu.Lock()
	p.readClosed = true
	p.buf = nil
	p.signal()
	p.mu.Unlock()
	return nil
}

func panicking() bool {
	pcs := make([]uintptr, 64)
	n := runtime.Callers(2, pcs)
	fr := runtime.CallersFrames(pcs[:n])
	for {
		f, more := fr.Next()
		if f.Function == "runtime.gopanic" {
			return true
		}
		if !more {
			return false
		}
	}
}

func (s *fstream) Reset() error { return s.reset(0) }

func (s *fstream) ResetWithError(code network.StreamErrorCode) error { return s.reset(uint32(code)) }

func (s *fstream) reset(code uint32) error {
	if s.server {
		inPanic := panicking()
		s.ex.mu.Lock()
		s.ex.resets = append(s.ex.resets, code)
		if inPanic {
			s.ex.resetInPanic++
		}
		s.ex.mu.Unlock()
	}
	local := &network.StreamError{ErrorCode: network.StreamErrorCode(code), Remote: false}
	remote := &network.StreamError{ErrorCode: network.StreamErrorCode(code), Remote: true}
	// our reads and writes fail locally; the peer's reads and writes see a remote reset
	p := s.in
	p.mu.Lock()
	if p.rerr == nil {
		p.rerr = local
	}
	if p.werr == nil {
		p.werr = remote
	}
	p.signal()
	p.mu.Unlock()
	p = s.out
	p.mu.Lock()
	if p.rerr == nil {
		p.rerr = remote
	}
	if p.werr == nil {
		p.werr = local
	}
	p.signal()
	p.mu.Unlock()
	return nil
}

func (s *fstream) SetDeadline(t time.Time) error {
	_ = s.SetReadDeadline(t)
	return s.SetWriteDeadline(t)
}

func (s *fstream) SetReadDeadline(t time.Time) error {
	if s.server {
		s.ex.mu.Lock()
		s.ex.readDeadlines++
		s.ex.mu.Unlock()
	}
	p := s.in
	p.mu.Lock()
	p.rdl = t
	p.signal()
	p.mu.Unlock()
	return nil
}

// Writes never block in this fake (unbounded buffer), so a write deadline has nothing to do.
func (s *fstream) SetWriteDeadline(time.Time) error { return nil }

func (s *fstream) ID() string                     { return "fake-stream" }
func (s *fstream) Protocol() protocol.ID          { return s.proto }
func (s *fstream) SetProtocol(protocol.ID) error  { return nil }
func (s *fstream) Stat() network.Stats            { return network.Stats{} }
func (s *fstream) Conn() network.Conn             { return s.conn }
func (s *fstream) Scope() network.StreamScope     { return &fscope{ex: s.ex} }

// ---------------------------------------------------------------------------
// connection: only what the handler asks for (remote peer, remote address)

type fconn struct {
	network.Conn // nil: any other method is a harness error (nil dereference, caught per exchange)
	remote       peer.ID
	local        peer.ID
	raddr        ma.Multiaddr
}

func (c *fconn) RemotePeer() peer.ID           { return c.remote }
func (c *fconn) LocalPeer() peer.ID            { return c.local }
func (c *fconn) RemoteMultiaddr() ma.Multiaddr { return c.raddr }
func (c *fconn) LocalMultiaddr() ma.Multiaddr  { return c.raddr }
func (c *fconn) ID() string                    { return "fake-conn" }

// ---------------------------------------------------------------------------
// resource scope

type fscope struct{ ex *exchange }

var _ network.StreamScope = (*fscope)(nil)

func (f *fscope) SetService(string) error {
	f.ex.mu.Lock()
	defer f.ex.mu.Unlock()
	f.ex.setService++
	if f.ex.fault.svcErr {
		return errors.New("fake scope: service limit exceeded")
	}
	return nil
}

func (f *fscope) ReserveMemory(size int, _ uint8) error {
	f.ex.mu.Lock()
	defer f.ex.mu.Unlock()
	deny := false
	switch f.ex.fault.mem {
	case "deny":
		deny = true
	case "limit":
		deny = size > memLimit
	}
	if size < 0 {
		deny = true
	}
	if deny {
		f.ex.denied = append(f.ex.denied, size)
		return network.ErrResourceLimitExceeded
	}
	f.ex.reserved = append(f.ex.reserved, size)
	return nil
}

func (f *fscope) ReleaseMemory(size int) {
	f.ex.mu.Lock()
	defer f.ex.mu.Unlock()
	f.ex.released = append(f.ex.released, size)
}

func (f *fscope) Stat() network.ScopeStat { return network.ScopeStat{} }

func (f *fscope) BeginSpan() (network.ResourceScopeSpan, error) {
	return nil, errors.New("fake scope: spans are not provided")
}

// ---------------------------------------------------------------------------
// host

type fhost struct {
	host.Host // nil: any other method is a harness error
	id        peer.ID
	mu        sync.Mutex
	handlers  map[protocol.ID]network.StreamHandler
	removed   int
	enforce   bool // honour stream deadlines (bubble mode)
	nextFault fault
	last      *exchange
	cur       *exchange // exchange the store wrapper attributes opens/closes to
	raddr     ma.Multiaddr
}

func newFHost() *fhost {
	a, err := ma.NewMultiaddr("/ip4/127.0.0.1/tcp/4001")
	if err != nil {
		panic(err)
	}
	return &fhost{id: peer.ID("verif-server"), handlers: map[protocol.ID]network.StreamHandler{}, raddr: a}
}

func (h *fhost) ID() peer.ID { return h.id }

func (h *fhost) SetStreamHandler(p protocol.ID, fn network.StreamHandler) {
	h.mu.Lock()
	h.handlers[p] = fn
	h.mu.Unlock()
}

func (h *fhost) RemoveStreamHandler(p protocol.ID) {
	h.mu.Lock()
	delete(h.handlers, p)
	h.removed++
	h.mu.Unlock()
}

// NewStream is what the real Client calls: it hands the server end to the handler the real
// Server registered for the protocol (in its own goroutine, as libp2p does) and returns the
// client end.
func (h *fhost) NewStream(_ context.Context, _ peer.ID, pids ...protocol.ID) (network.Stream, error) {
	if len(pids) != 1 {
		return nil, fmt.Errorf("fake host: %d protocols", len(pids))
	}
	h.mu.Lock()
	fn, ok := h.handlers[pids[0]]
	f := h.nextFault
	h.mu.Unlock()
	if !ok {
		return nil, fmt.Errorf("fake host: protocol %s not supported", pids[0])
	}
	ex := &exchange{proto: pids[0], done: make(chan struct{}), fault: f}
	c2s, s2c := newPipeHalf(h.enforce), newPipeHalf(h.enforce)
	conn := &fconn{remote: peer.ID("verif-client"), local: h.id, raddr: h.raddr}
	srv := &fstream{server: true, in: c2s, out: s2c, ex: ex, conn: conn, proto: pids[0]}
	cli := &fstream{server: false, in: s2c, out: c2s, ex: ex, conn: conn, proto: pids[0]}
	h.mu.Lock()
	h.last = ex
	h.cur = ex
	h.mu.Unlock()
	// As with libp2p's lazy protocol negotiation the handler gets the stream only once the
	// opener has used it; starting it after the opener's first write makes every exchange
	// deterministic (the handler never observes "nothing written yet").
	var once sync.Once
	cli.start = func() {
		once.Do(func() {
			go func() {
				defer close(ex.done)
				defer func() {
					if r := recover(); r != nil {
						ex.mu.Lock()
						ex.escaped = fmt.Sprintf("%v", r)
						ex.mu.Unlock()
					}
				}()
				defer func() {
					// a handler that returns without Close or Reset leaves the stream open until
					// the peer gives up; record it and tear the stream down so the client returns
					ex.mu.Lock()
					left := ex.closed == 0 && len(ex.resets) == 0
					ex.leftOpen = left
					ex.mu.Unlock()
					if left {
						srv.server = false // the harness's own reset is not a server action
						_ = srv.Reset()
					}
				}()
				fn(srv)
			}()
		})
	}
	return cli, nil
}

// ---------------------------------------------------------------------------
// store wrapper: counts accessor opens and closes per exchange, applies store faults

type cstore struct {
	inner store.AccessorGetter
	h     *fhost
}

var errInjectedStore = errors.New("fake store: injected failure")

func (c *cstore) GetByHeight(ctx context.Context, height uint64) (eds.AccessorStreamer, error) {
	c.h.mu.Lock()
	ex := c.h.cur
	c.h.mu.Unlock()
	if ex != nil && ex.fault.storeErr {
		return nil, errInjectedStore
	}
	acc, err := c.inner.GetByHeight(ctx, height)
	if err != nil {
		return nil, err
	}
	if ex != nil {
		ex.mu.Lock()
		ex.opens++
		ex.mu.Unlock()
	}
	return &cacc{AccessorStreamer: acc, ex: ex}, nil
}

func (c *cstore) HasByHeight(ctx context.Context, height uint64) (bool, error) {
	return c.inner.HasByHeight(ctx, height)
}

type cacc struct {
	eds.AccessorStreamer
	ex *exchange
}

func (a *cacc) Close() error {
	if a.ex != nil {
		a.ex.mu.Lock()
		a.ex.closes++
		a.ex.mu.Unlock()
	}
	return a.AccessorStreamer.Close()
}

func (a *cacc) f() fault {
	if a.ex == nil {
		return fault{}
	}
	return a.ex.fault
}

func (a *cacc) Size(ctx context.Context) (int, error) {
	if a.f().accPanic == "size" {
		panic("fake accessor: injected panic in Size")
	}
	if a.f().sizeErr {
		return 0, errors.New("fake accessor: injected Size failure")
	}
	return a.AccessorStreamer.Size(ctx)
}

func (a *cacc) dataPanic(where string) {
	if a.f().accPanic == "data" {
		panic("fake accessor: injected panic in " + where)
	}
}

func (a *cacc) Reader() (io.Reader, error) {
	a.dataPanic("Reader")
	return a.AccessorStreamer.Reader()
}

func (a *cacc) Sample(ctx context.Context, idx shwap.SampleCoords) (shwap.Sample, error) {
	a.dataPanic("Sample")
	return a.AccessorStreamer.Sample(ctx, idx)
}

func (a *cacc) AxisHalf(ctx context.Context, axis rsmt2d.Axis, idx int) (shwap.AxisHalf, error) {
	a.dataPanic("AxisHalf")
	return a.AccessorStreamer.AxisHalf(ctx, axis, idx)
}

func (a *cacc) RowNamespaceData(ctx context.Context, ns libshare.Namespace, row int) (shwap.RowNamespaceData, error) {
	a.dataPanic("RowNamespaceData")
	return a.AccessorStreamer.RowNamespaceData(ctx, ns, row)
}

func (a *cacc) RangeNamespaceData(ctx context.Context, from, to int) (shwap.RangeNamespaceData, error) {
	a.dataPanic("RangeNamespaceData")
	return a.AccessorStreamer.RangeNamespaceData(ctx, from, to)
}

func (a *cacc) AxisRoots(ctx context.Context) (*share.AxisRoots, error) {
	a.dataPanic("AxisRoots")
	return a.AccessorStreamer.AxisRoots(ctx)
}

// emptyStore holds nothing (bubble scenarios).
type emptyStore struct{}

func (emptyStore) GetByHeight(context.Context, uint64) (eds.AccessorStreamer, error) {
	return nil, store.ErrNotFound
}
func (emptyStore) HasByHeight(context.Context, uint64) (bool, error) { return false, nil }

// ---------------------------------------------------------------------------
// raw request: lets the REAL client put an arbitrary byte string on the wire

type rawReq struct {
	name string
	data []byte
}

func (r *rawReq) WriteTo(w io.Writer) (int64, error) {
	if len(r.data) == 0 {
		return 0, nil
	}
	n, err := w.Write(r.data)
	return int64(n), err
}
func (r *rawReq) ReadFrom(io.Reader) (int64, error) { return 0, errors.New("rawReq: not readable") }
func (r *rawReq) Name() string                      { return r.name }
func (r *rawReq) Height() uint64                    { return 0 }
func (r *rawReq) Validate() error                   { return nil }
func (r *rawReq) ResponseSize(int) int              { return 0 }
func (r *rawReq) ResponseReader(context.Context, shwap.Accessor) (io.Reader, error) {
	return nil, errors.New("rawReq: no response")
}

func shortErr(err error) string {
	if err == nil {
		return "nil"
	}
	s := err.Error()
	if i := strings.IndexByte(s, '\n'); i > 0 {
		s = s[:i]
	}
	if len(s) > 160 {
		s = s[:160]
	}
	return s
}
