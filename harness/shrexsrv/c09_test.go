package shrex

// C09 — Shrex serves exactly what is asked and survives anything it is sent.
//
// Bounded-exhaustive enumeration executed on the real implementation: the REAL Server
// (NewServer + Start: the five handlers behind the recovery middleware) over the REAL store,
// and the REAL Client, connected by an in-memory stream pair. For every square of the stated
// widths (verifx/sq) stored in each storage form, every well-formed request of every kind, every
// request for a height that is not held, an explicit alphabet of malformed request byte
// strings, and an alphabet of injected faults, the exchange is executed and judged against
// an independent reference (ref_test.go).

import (
	"bytes"
	"context"
	"encoding/hex"
	"encoding/json"
	"errors"
	"fmt"
	"os"
	"path/filepath"
	"os/exec"
	"sort"
	"strconv"
	"strings"
	"sync"
	"testing"
	"testing/synctest"
	"time"

	logging "github.com/ipfs/go-log/v2"
	"github.com/libp2p/go-libp2p/core/network"

	"github.com/celestiaorg/go-libp2p-messenger/serde"

	"github.com/celestiaorg/celestia-node/share"
	shrexpb "github.com/celestiaorg/celestia-node/share/shwap/p2p/shrex/pb"
	"github.com/celestiaorg/celestia-node/store"
	"github.com/celestiaorg/celestia-node/verifx/sq"
	"github.com/celestiaorg/celestia-node/verifx/vx"
)

// ---------------------------------------------------------------------------
// cases

// vCase is one executed case and the replay artefact.
type vCase struct {
	Layout  string `json:"layout"`
	Storage string `json:"storage"` // mem (recent-blocks cache) | q4 (ODS+Q4 files) | ods (ODS file only)
	Kind    string `json:"kind"`    // eds | row | sample | nd | range
	Mode    string `json:"mode"`    // typed (real constructor + real WriteTo) | raw (bytes as given) | stall
	Raw     string `json:"raw"`     // request bytes, hex
	Fault   string `json:"fault"`
	Group   string `json:"group"` // which enumerator produced it
	Held    uint64 `json:"held"`  // the height the square is stored at
	// Before: requests served earlier from the SAME accessor instance (sequence cases); the square
	// is then additionally held at the height these requests and Raw name
	Before []seqStep `json:"before,omitempty"`
	Req     string `json:"req,omitempty"`
	Expect  string `json:"expect,omitempty"`
	Outcome string `json:"outcome,omitempty"`
}

// seqStep is one earlier request of a sequence.
type seqStep struct {
	Kind string `json:"kind"`
	Raw  string `json:"raw"`
}

type spec struct {
	kind  int
	mode  string
	raw   []byte
	fault fault
	group string
}

var storages = []string{"mem", "q4", "ods"}

// worker owns one real server + client + one real store per storage form.
type worker struct {
	t      *testing.T
	dir    string
	host   *fhost
	srv    *Server
	cli    *Client
	cs     *cstore
	stores map[string]*store.Store
	st     *stats
	sink   *sink
	hang   time.Duration
	// sequences: a file-backed store behind a serving cache (store.CachedStore), so that the
	// accessor opened from the ODS+Q4 files persists between requests
	cached *store.CachedStore
	before []seqStep // earlier requests of the running sequence (recorded in cases)
}

type stats struct {
	Cases      int64 `json:"cases"`
	Distinct   int64 `json:"distinct"`
	Events     int64 `json:"events"`
	Worlds     int64 `json:"worlds"`
	Accepted   int64 `json:"accepted"` // well-formed requests whose reply was accepted with exactly the requested data
	NotFound   int64 `json:"not_found"`
	Refused    int64 `json:"refused"`
	Mixed      int64 `json:"mixed"`
	Faulted    int64 `json:"faulted"`
	Overlong   int64 `json:"overlong"`
	Recovered  int64 `json:"recovered"` // panics caught by the recovery middleware (counted, judged only if they escape)
	OverRel    int64 `json:"over_release"`
	Short      int64 `json:"short_strings"`
	Sequences  int64 `json:"sequences"`
	SeqSteps   int64 `json:"sequence_steps"`
	TornSeqs   int64 `json:"torn_q4_sequences"`
	Outcomes   map[string]int64 `json:"outcomes"` // kind|class|why|fault -> client class|status|reset
	PerGroup   map[string]int64 `json:"per_group"`
	PerKind    map[string]int64 `json:"per_kind"`
	PerWidth   map[string]int64 `json:"per_width"`
	PerStorage map[string]int64 `json:"per_storage"`
	PerFault   map[string]int64 `json:"per_fault"`
	GroupNs    map[string]int64 `json:"group_ns"` // worker time per enumerator group (reported, never judged)
}

func newStats() *stats {
	return &stats{Outcomes: map[string]int64{}, PerGroup: map[string]int64{}, PerKind: map[string]int64{},
		PerWidth: map[string]int64{}, PerStorage: map[string]int64{}, PerFault: map[string]int64{}, GroupNs: map[string]int64{}}
}

func (s *stats) merge(o *stats) {
	s.Cases += o.Cases
	s.Distinct += o.Distinct
	s.Events += o.Events
	s.Worlds += o.Worlds
	s.Accepted += o.Accepted
	s.NotFound += o.NotFound
	s.Refused += o.Refused
	s.Mixed += o.Mixed
	s.Faulted += o.Faulted
	s.Overlong += o.Overlong
	s.Recovered += o.Recovered
	s.OverRel += o.OverRel
	s.Short += o.Short
	s.Sequences += o.Sequences
	s.SeqSteps += o.SeqSteps
	s.TornSeqs += o.TornSeqs
	for _, p := range []struct{ a, b map[string]int64 }{{s.Outcomes, o.Outcomes}, {s.PerGroup, o.PerGroup},
		{s.PerKind, o.PerKind}, {s.PerWidth, o.PerWidth}, {s.PerStorage, o.PerStorage}, {s.PerFault, o.PerFault}, {s.GroupNs, o.GroupNs}} {
		for k, v := range p.b {
			p.a[k] += v
		}
	}
}

// findingRec is a violation as transported from a shard process to the parent.
type findingRec struct {
	Sig   string `json:"sig"`
	What  string `json:"what"`
	Case  vCase  `json:"case"`
	Count int    `json:"count"`
}

// sink collects what a worker finds (in a shard process: to be sent to the parent).
type sink struct {
	findings map[string]*findingRec
	order    []string
	samples  []vCase
	sampled  map[string]bool
}

func newSink() *sink { return &sink{findings: map[string]*findingRec{}, sampled: map[string]bool{}} }

func (k *sink) finding(sig, what string, c vCase) {
	if f, ok := k.findings[sig]; ok {
		f.Count++
		return
	}
	k.findings[sig] = &findingRec{Sig: sig, What: what, Case: c, Count: 1}
	k.order = append(k.order, sig)
}

func (k *sink) sample(key string, c func() vCase) {
	if k.sampled[key] {
		return
	}
	k.sampled[key] = true
	k.samples = append(k.samples, c())
}

func newWorker(t *testing.T, dir string) (*worker, error) {
	wk := &worker{t: t, dir: dir, host: newFHost(), st: newStats(), sink: newSink(), stores: map[string]*store.Store{}, hang: 180 * time.Second}
	for _, sf := range storages {
		p := store.DefaultParameters()
		if sf != "mem" {
			p.RecentBlocksCacheSize = 0
		}
		d := filepath.Join(dir, sf)
		if err := os.MkdirAll(d, 0o755); err != nil {
			return nil, err
		}
		s, err := store.NewStore(p, d)
		if err != nil {
			return nil, err
		}
		wk.stores[sf] = s
	}
	{
		p := store.DefaultParameters()
		p.RecentBlocksCacheSize = 0
		d := filepath.Join(dir, "cq4")
		if err := os.MkdirAll(d, 0o755); err != nil {
			return nil, err
		}
		s, err := store.NewStore(p, d)
		if err != nil {
			return nil, err
		}
		wk.stores["cq4"] = s
		if wk.cached, err = s.WithCache("serving", 8); err != nil {
			return nil, err
		}
	}
	wk.cs = &cstore{h: wk.host}
	srv, err := NewServer(DefaultServerParameters(), wk.host, wk.cs)
	if err != nil {
		return nil, err
	}
	if err := srv.Start(context.Background()); err != nil {
		return nil, err
	}
	wk.srv = srv
	cli, err := NewClient(DefaultClientParameters(), wk.host)
	if err != nil {
		return nil, err
	}
	wk.cli = cli
	return wk, nil
}

func (wk *worker) close() {
	_ = wk.srv.Stop(context.Background())
	for _, s := range wk.stores {
		_ = s.Stop(context.Background())
	}
	_ = os.RemoveAll(wk.dir)
}

// hold stores the square in the given storage form at the world's height.
func (wk *worker) hold(w *world) error {
	st := wk.stores[w.storage]
	wk.cs.inner = st
	roots := (*share.AxisRoots)(w.S.DAH)
	put := st.PutODSQ4
	if w.storage == "ods" {
		put = st.PutODS
	}
	if err := put(context.Background(), roots, w.height, w.S.EDS); err != nil {
		return err
	}
	if w.alt != nil {
		return put(context.Background(), (*share.AxisRoots)(w.alt.S.DAH), w.alt.height, w.alt.S.EDS)
	}
	return nil
}

func (wk *worker) drop(w *world) {
	if w.alt != nil {
		_ = wk.stores[w.storage].RemoveODSQ4(context.Background(), w.alt.height, w.alt.S.DAH.Hash())
	}
	_ = wk.stores[w.storage].RemoveODSQ4(context.Background(), w.height, w.S.DAH.Hash())
}

// newWorld builds the square of a layout (payload variant 0) to be held at height, together
// with a second block of the same layout and another payload held at height+altOffset.
func newWorld(l sq.Layout, height uint64, storage string) (*world, error) {
	S, err := sq.Build(l, 0)
	if err != nil {
		return nil, err
	}
	S2, err := sq.Build(l, 1)
	if err != nil {
		return nil, err
	}
	w := &world{S: S, height: height, storage: storage, ods: S.ODS()}
	w.alt = &world{S: S2, height: height + altOffset, storage: storage, ods: S2.ODS()}
	return w, nil
}

const altOffset = 7

// ---------------------------------------------------------------------------
// one exchange

type observation struct {
	cliErr     error
	cliClass   string
	status     int // -1: no complete status message written
	payload    int
	resets     []uint32
	inPanic    int
	leftOpen   bool
	returned   bool
	escaped    any
	opens      int
	closes     int
	reserved   int64
	released   int64
	denied     int
	encodingOK bool
	ctorErr    error
	verr       error
	equal      bool
	verified   bool
	events     int64
}

func (o *observation) String() string {
	rs := "-"
	if len(o.resets) > 0 {
		rs = fmt.Sprint(o.resets)
	}
	return fmt.Sprintf("client=%s status=%s payload=%d resets=%s returned=%v escaped=%v opens=%d closes=%d reserved=%d released=%d denied=%d left-open=%v",
		o.cliClass, statusName(o.status), o.payload, rs, o.returned, o.escaped, o.opens, o.closes, o.reserved, o.released, o.denied, o.leftOpen)
}

func statusName(s int) string {
	switch s {
	case -1:
		return "none"
	case int(shrexpb.Status_OK):
		return "OK"
	case int(shrexpb.Status_NOT_FOUND):
		return "NOT_FOUND"
	case int(shrexpb.Status_INTERNAL):
		return "INTERNAL"
	case int(shrexpb.Status_INVALID):
		return "INVALID"
	}
	return fmt.Sprintf("status(%d)", s)
}

func classOfClientErr(err error) string {
	switch {
	case err == nil:
		return "ok"
	case errors.Is(err, ErrNotFound):
		return "not-found"
	case errors.Is(err, ErrInternalServer):
		return "internal"
	case errors.Is(err, ErrInvalidRequest):
		return "invalid-request"
	case errors.Is(err, ErrResourceExhausted):
		return "resource-exhausted"
	case errors.Is(err, ErrInvalidResponse):
		return "invalid-response"
	case errors.Is(err, network.ErrReset):
		return "reset"
	case strings.Contains(err.Error(), "EOF"):
		return "eof"
	}
	return "other"
}

// exchangeOnce executes one case on the real client and server and collects what happened.
func (wk *worker) exchangeOnce(sp spec, w *world, exp expectation) (*observation, response) {
	o := &observation{status: -1, encodingOK: true}
	wk.host.mu.Lock()
	wk.host.nextFault = sp.fault
	wk.host.last = nil
	wk.host.mu.Unlock()

	var req request
	if sp.mode == "typed" {
		tw := w
		if exp.w != nil {
			tw = exp.w
		}
		r, err := typedRequest(exp.id, tw)
		if err != nil {
			o.ctorErr = err
			o.cliClass = "constructor-refused"
			return o, nil
		}
		var buf bytes.Buffer
		if _, err := r.WriteTo(&buf); err != nil || !bytes.Equal(buf.Bytes(), sp.raw) {
			o.encodingOK = false
		}
		req = r
	} else {
		req = &rawReq{name: kindProto[sp.kind], data: sp.raw}
	}
	resp := newContainer(sp.kind)
	// watchdog (real time, generous): a client that never returns is unblocked by cancelling
	// its context; what is judged is whether the handler returned, never the time it took
	ctx, cancel := context.WithCancel(context.Background())
	wd := time.AfterFunc(wk.hang, cancel)
	o.cliErr = wk.cli.Get(ctx, req, resp, wk.host.ID())
	wd.Stop()
	cancel()
	o.cliClass = classOfClientErr(o.cliErr)

	wk.host.mu.Lock()
	ex := wk.host.last
	wk.host.mu.Unlock()
	if ex == nil {
		// the client never opened a stream (its own WriteTo refused): nothing ran on the server
		o.returned = true
		return o, resp
	}
	select {
	case <-ex.done:
		o.returned = true
	default:
		tm := time.NewTimer(wk.hang)
		select {
		case <-ex.done:
			o.returned = true
		case <-tm.C:
			o.returned = false
		}
		tm.Stop()
	}
	ex.mu.Lock()
	defer ex.mu.Unlock()
	o.resets = append([]uint32(nil), ex.resets...)
	o.leftOpen = ex.leftOpen
	o.inPanic = ex.resetInPanic
	o.escaped = ex.escaped
	o.opens, o.closes = ex.opens, ex.closes
	for _, x := range ex.reserved {
		o.reserved += int64(x)
	}
	for _, x := range ex.released {
		o.released += int64(x)
	}
	o.denied = len(ex.denied)
	if len(ex.written) > 0 {
		var st shrexpb.Response
		rd := bytes.NewReader(ex.written)
		if _, err := serde.Read(rd, &st); err == nil {
			o.status = int(st.Status)
			o.payload = rd.Len()
		}
	}
	o.events = int64(ex.writes+len(ex.resets)+ex.closed+ex.closeRead+ex.closeWrite+ex.setService+
		len(ex.reserved)+len(ex.denied)+len(ex.released)+ex.opens+ex.closes) + 1
	return o, resp
}

type finding struct{ sig, what string }

// judge applies the property. Only what the statement demands is a finding.
func judge(sp spec, w *world, exp expectation, o *observation, resp response) []finding {
	var fs []finding
	k := kindNames[sp.kind]
	add := func(sig, what string) { fs = append(fs, finding{"C09/" + sig, what}) }
	ctx := fmt.Sprintf("%s/%s", exp.class, sp.fault.Name)

	// --- always: never crash, never wedge, always release
	if !o.returned {
		add("wedge/handler-not-returned/"+k+"/"+ctx, "the stream handler did not return")
		return fs
	}
	if o.escaped != nil {
		add("crash/panic-escaped-handler/"+k+"/"+ctx, fmt.Sprintf("panic escaped the registered stream handler: %v", o.escaped))
	}
	if o.closes < o.opens {
		add("leak/accessor-not-closed/"+k+"/"+ctx, fmt.Sprintf("accessor opened %d times, closed %d times", o.opens, o.closes))
	}
	if o.released < o.reserved {
		add("leak/memory-not-released/"+k+"/"+ctx, fmt.Sprintf("reserved %d bytes, released %d bytes", o.reserved, o.released))
	}

	// client-side acceptance of the decoded container
	accepted := false
	if o.cliErr == nil && o.ctorErr == nil && resp != nil && (exp.class == expData || exp.class == expMixedNS) {
		func() {
			defer func() {
				if r := recover(); r != nil {
					o.verr = fmt.Errorf("panic in client verification: %v", r)
				}
			}()
			o.verr, o.equal = verifyAsGetter(exp.id, resp, exp.w)
		}()
		o.verified = true
		accepted = o.verr == nil
	}
	// accepted ⇒ equals the requested data, under every fault and for every request
	if accepted && !o.equal {
		add("wrong-data/accepted-by-client/"+k+"/"+ctx, "the client's verification accepted a reply that differs from the requested data")
	}
	if sp.fault.Name != "none" && sp.fault.Name != "mem-limit" {
		return fs
	}

	judgeRefuse := func(why string) []finding {
		var r []finding
		addr := func(sig, what string) { r = append(r, finding{"C09/" + sig, what}) }
		if o.status == int(shrexpb.Status_OK) {
			addr("malformed-answered-ok/"+k+"/"+why, "a request that must be refused was answered with status OK")
		} else if o.cliErr == nil && o.ctorErr == nil {
			addr("malformed-accepted/"+k+"/"+why, "the client saw no error for a request that must be refused")
		} else if o.ctorErr == nil && o.status == -1 && len(o.resets) == 0 {
			addr("malformed-no-refusal/"+k+"/"+why, "neither an error status nor a stream reset was sent")
		}
		return r
	}
	judgeMain := func() []finding {
		var r []finding
		addr := func(sig, what string) { r = append(r, finding{"C09/" + sig, what}) }
		switch exp.class {
		case expData:
			switch {
			case o.ctorErr != nil:
				addr("well-formed-refused-by-constructor/"+k, "the client constructor refuses a well-formed request: "+shortErr(o.ctorErr))
			case !o.encodingOK:
				addr("encoding/client-bytes-differ/"+k, "the client encodes the request differently from the reference encoding")
			case o.cliErr != nil:
				addr("well-formed-failed/"+k+"/client="+o.cliClass+"/status="+statusName(o.status),
					"a well-formed request for a held block failed: "+shortErr(o.cliErr))
			case o.verr != nil:
				addr("well-formed-rejected/"+k, "the honest reply is rejected by the client's verification: "+shortErr(o.verr))
			}
		case expNotFound:
			switch {
			case o.ctorErr != nil:
				addr("well-formed-refused-by-constructor/"+k, "the client constructor refuses a well-formed request: "+shortErr(o.ctorErr))
			case !errors.Is(o.cliErr, ErrNotFound):
				addr("not-held-not-reported/"+k+"/client="+o.cliClass+"/status="+statusName(o.status),
					"a request for a height the server does not hold was not answered 'not found': "+shortErr(o.cliErr))
			}
		case expRefuse:
			r = append(r, judgeRefuse(exp.why)...)
		case expMixedNS:
			// outside the contract of the range container; wrong data is judged above
		}
		return r
	}
	main := judgeMain()
	if exp.overlong && len(main) > 0 {
		// trailing bytes: either served as the fixed-size prefix or refused
		if len(judgeRefuse("overlong")) == 0 {
			main = nil
		}
	}
	return append(fs, main...)
}

func (wk *worker) run(sp spec, w *world, lay string) (string, []finding) {
	t0 := time.Now()
	exp := classify(sp.kind, sp.raw, w)
	o, resp := wk.exchangeOnce(sp, w, exp)
	fs := judge(sp, w, exp, o, resp)
	st := wk.st
	st.GroupNs[sp.group] += int64(time.Since(t0))
	st.Cases++
	st.Events += o.events
	st.PerGroup[sp.group]++
	st.PerKind[kindNames[sp.kind]]++
	st.PerFault[sp.fault.Name]++
	if o.inPanic > 0 {
		st.Recovered++
	}
	if o.released > o.reserved {
		st.OverRel++
	}
	if exp.overlong {
		st.Overlong++
	}
	switch {
	case sp.fault.Name != "none" && sp.fault.Name != "mem-limit":
		st.Faulted++
	case exp.class == expData && len(fs) == 0:
		st.Accepted++
	case exp.class == expNotFound && len(fs) == 0:
		st.NotFound++
	case exp.class == expRefuse && len(fs) == 0:
		st.Refused++
	case exp.class == expMixedNS:
		st.Mixed++
	}
	rs := "no-reset"
	if o.leftOpen {
		rs = "left-open"
	}
	if len(o.resets) > 0 {
		rs = fmt.Sprintf("reset%v", o.resets)
		if o.inPanic > 0 {
			rs += "(recovered-panic)"
		}
	}
	ver := ""
	if o.verified {
		ver = fmt.Sprintf("|verified=%v,equal=%v", o.verr == nil, o.equal)
	}
	out := fmt.Sprintf("client=%s|status=%s|%s%s", o.cliClass, statusName(o.status), rs, ver)
	st.Outcomes[fmt.Sprintf("%s|%s|%s|%s -> %s", kindNames[sp.kind], exp.class, exp.why, sp.fault.Name, out)]++
	mk := func() vCase {
		return vCase{Layout: lay, Storage: w.storage, Kind: kindNames[sp.kind], Mode: sp.mode, Raw: hexs(sp.raw), Fault: sp.fault.Name,
			Group: sp.group, Held: w.height, Req: exp.id.String(), Expect: exp.class + ":" + exp.why, Outcome: o.String(),
			Before: append([]seqStep(nil), wk.before...)}
	}
	wk.sink.sample(sp.group+"/"+exp.class, mk)
	for _, f := range fs {
		wk.sink.finding(f.sig, fmt.Sprintf("%s [%s %s %s %s fault=%s expect=%s:%s] %s", f.what, lay, w.storage, exp.id, sp.mode, sp.fault.Name,
			exp.class, exp.why, o.String()), mk())
	}
	return out, fs
}

// ---------------------------------------------------------------------------
// enumerators

func gridIdx(n int) []int { // n = EDS width
	return uniqInts([]int{0, n/2 - 1, n / 2, n - 1, n, n + 1, 255, 256, 32767, 32768, 65535})
}

func gridRange(area int) []int {
	return uniqInts([]int{0, 1, area - 1, area, area + 1, 65535, 65536, 1<<31 - 1, 1 << 31, 1<<32 - 1})
}

func uniqInts(in []int) []int {
	seen := map[int]bool{}
	var out []int
	for _, x := range in {
		if x >= 0 && !seen[x] {
			seen[x] = true
			out = append(out, x)
		}
	}
	sort.Ints(out)
	return out
}

func notHeldHeights(h uint64) []uint64 {
	return []uint64{h + 1, h - 1, 1, 1 << 32, 1<<63 - 1, 1 << 63, ^uint64(0)}
}

// namespaceAlphabet: every probe of verifx/sq (each layout symbol, every gap, below / above all,
// reserved, tail padding, parity) plus namespaces that are malformed as such.
func namespaceAlphabet() [][]byte {
	var out [][]byte
	for _, p := range sq.Probes() {
		out = append(out, append([]byte(nil), p.NS.Bytes()...))
	}
	mk := func(ver byte, f func(id []byte)) []byte {
		b := make([]byte, 29)
		b[0] = ver
		f(b[1:])
		return b
	}
	out = append(out,
		mk(1, func([]byte) {}),                                  // unsupported version, zero id
		mk(0x7f, func(id []byte) { id[27] = 1 }),                // unsupported version
		mk(254, func(id []byte) { id[27] = 1 }),                 // unsupported version
		mk(0, func(id []byte) { id[0] = 1 }),                    // v0 without the 18 zero bytes (first)
		mk(0, func(id []byte) { id[17] = 1 }),                   // v0 without the 18 zero bytes (last)
		mk(0, func(id []byte) { copy(id, bytes.Repeat([]byte{0xff}, 28)) }), // v0, id all ones
		mk(0, func(id []byte) { copy(id[18:], bytes.Repeat([]byte{0xff}, 10)) }), // largest v0 namespace
		mk(255, func([]byte) {}),                                // v255, zero id (valid secondary reserved range)
		mk(255, func(id []byte) { id[27] = 0xfe }),              // v255, looks like tail padding in the last byte only
		mk(255, func(id []byte) { copy(id, bytes.Repeat([]byte{0xff}, 28)); id[27] = 0xfd }), // just below tail padding
		mk(255, func(id []byte) { copy(id, bytes.Repeat([]byte{0xff}, 28)); id[0] = 0xfe }),  // v255 between the user range and the secondary reserved range
	)
	return out
}

// wellFormed lists every request of every kind for the held square (ranges include the ones
// that span namespaces; classify separates them).
func wellFormed(w *world) []spec {
	var out []spec
	add := func(id refID) {
		id.height = w.height
		raw := refEncode(id)
		mode := "typed"
		if classify(id.kind, raw, w).class == expRefuse {
			mode = "raw" // the client constructor refuses to build it; only an attacker sends it
		}
		out = append(out, spec{kind: id.kind, mode: mode, raw: raw, fault: faultAlphabet[0], group: "all-requests"})
	}
	add(refID{kind: kEds})
	for r := 0; r < w.S.N; r++ {
		add(refID{kind: kRow, row: r})
	}
	for r := 0; r < w.S.N; r++ {
		for c := 0; c < w.S.N; c++ {
			add(refID{kind: kSample, row: r, col: c})
		}
	}
	for _, p := range sq.Probes() {
		add(refID{kind: kNd, ns: p.NS.Bytes()})
	}
	area := w.S.W * w.S.W
	for f := 0; f < area; f++ {
		for t := f + 1; t <= area; t++ {
			add(refID{kind: kRange, from: f, to: t})
		}
	}
	return out
}

// baseIDs: one valid identifier per kind (first) and one more (last) for the held square.
func baseIDs(w *world) [numKinds][2]refID {
	area := w.S.W * w.S.W
	nsA := sq.A.Namespace().Bytes()
	nsTx := sq.TX.Namespace().Bytes()
	h := w.height
	return [numKinds][2]refID{
		{{kind: kEds, height: h}, {kind: kEds, height: h}},
		{{kind: kRow, height: h, row: 0}, {kind: kRow, height: h, row: w.S.N - 1}},
		{{kind: kSample, height: h, row: 0, col: 0}, {kind: kSample, height: h, row: w.S.N - 1, col: w.S.N - 1}},
		{{kind: kNd, height: h, ns: nsA}, {kind: kNd, height: h, ns: nsTx}},
		{{kind: kRange, height: h, from: 0, to: 1}, {kind: kRange, height: h, from: area - 1, to: area}},
	}
}

// notHeld: every kind × heights the server does not hold (typed, as the getter would ask).
func notHeld(w *world) []spec {
	var out []spec
	base := baseIDs(w)
	for k := 0; k < numKinds; k++ {
		for _, h := range notHeldHeights(w.height) {
			id := base[k][0]
			id.height = h
			out = append(out, spec{kind: k, mode: "typed", raw: refEncode(id), fault: faultAlphabet[0], group: "not-held"})
		}
	}
	return out
}

// fieldGrid: each field at and beyond its bound for the stored square, zero height, bad
// namespaces, from >= to, huge ranges; also combined with a height that is not held.
func fieldGrid(w *world, full bool) []spec {
	var out []spec
	memLim, _ := faultByName("mem-limit")
	add := func(id refID, f fault) {
		out = append(out, spec{kind: id.kind, mode: "raw", raw: refEncode(id), fault: f, group: "field-grid"})
	}
	base := baseIDs(w)
	heights := []uint64{w.height, 0, w.height + 1}
	if !full {
		heights = heights[:1]
	}
	for k := 0; k < numKinds; k++ {
		id := base[k][0]
		id.height = 0
		add(id, faultAlphabet[0])
	}
	for _, h := range heights {
		for _, r := range gridIdx(w.S.N) {
			add(refID{kind: kRow, height: h, row: r}, faultAlphabet[0])
		}
		for _, r := range gridIdx(w.S.N) {
			for _, c := range gridIdx(w.S.N) {
				if h != w.height && r != c && r != 0 && c != 0 {
					continue // off-diagonal combinations only for the held height
				}
				add(refID{kind: kSample, height: h, row: r, col: c}, faultAlphabet[0])
			}
		}
		for _, ns := range namespaceAlphabet() {
			add(refID{kind: kNd, height: h, ns: ns}, faultAlphabet[0])
		}
		g := gridRange(w.S.W * w.S.W)
		for _, f := range g {
			for _, t := range g {
				add(refID{kind: kRange, height: h, from: f, to: t}, faultAlphabet[0])
				if h == w.height && t-f > 1<<16 {
					// reservation size computed from attacker-controlled fields: also with the
					// production-like per-stream memory limit
					add(refID{kind: kRange, height: h, from: f, to: t}, memLim)
				}
			}
		}
	}
	return out
}

// lengths: every truncation of a valid encoding and some over-long variants.
func lengths(w *world, full bool) []spec {
	var out []spec
	base := baseIDs(w)
	nb := 2
	if !full {
		nb = 1
	}
	for k := 0; k < numKinds; k++ {
		for bi := 0; bi < nb; bi++ {
			enc := refEncode(base[k][bi])
			for n := 0; n < len(enc); n++ {
				out = append(out, spec{kind: k, mode: "raw", raw: enc[:n], fault: faultAlphabet[0], group: "truncation"})
			}
			for _, tail := range [][]byte{{0x00}, {0xff}, bytes.Repeat([]byte{0xab}, 8), bytes.Repeat([]byte{0x00}, 64)} {
				out = append(out, spec{kind: k, mode: "raw", raw: append(append([]byte(nil), enc...), tail...), fault: faultAlphabet[0], group: "overlong"})
			}
		}
		// exact-length strings of one repeated byte
		for _, v := range []byte{0x00, 0x01, 0x7f, 0x80, 0xff} {
			out = append(out, spec{kind: k, mode: "raw", raw: bytes.Repeat([]byte{v}, kindSize[k]), fault: faultAlphabet[0], group: "uniform-bytes"})
		}
	}
	return out
}

// substitutions: every single-byte substitution from {00,01,7f,80,ff,b^1} of two valid
// encodings per kind.
func substitutions(w *world) []spec {
	var out []spec
	base := baseIDs(w)
	for k := 0; k < numKinds; k++ {
		for bi := 0; bi < 2; bi++ {
			enc := refEncode(base[k][bi])
			for pos := range enc {
				for _, v := range []byte{0x00, 0x01, 0x7f, 0x80, 0xff, enc[pos] ^ 1} {
					if v == enc[pos] {
						continue
					}
					m := append([]byte(nil), enc...)
					m[pos] = v
					out = append(out, spec{kind: k, mode: "raw", raw: m, fault: faultAlphabet[0], group: "byte-substitution"})
				}
			}
		}
	}
	return out
}

// shortStrings calls f with every byte string of length <= maxLen on every protocol; f
// returns false to stop.
func shortStrings(maxLen int, f func(spec) bool) {
	mk := func(k int, raw []byte) spec {
		return spec{kind: k, mode: "raw", raw: raw, fault: faultAlphabet[0], group: "short-strings"}
	}
	for k := 0; k < numKinds; k++ {
		if !f(mk(k, []byte{})) {
			return
		}
		for a := 0; maxLen >= 1 && a < 256; a++ {
			if !f(mk(k, []byte{byte(a)})) {
				return
			}
		}
		for a := 0; maxLen >= 2 && a < 256; a++ {
			for b := 0; b < 256; b++ {
				if !f(mk(k, []byte{byte(a), byte(b)})) {
					return
				}
			}
		}
	}
}

// cornerRequests: a fixed list of requests at the corners of the square (whole square, first /
// last row, corner coordinates, first / last / whole range, every probe namespace).
func cornerRequests(w *world) []spec {
	var reqs []spec
	area := w.S.W * w.S.W
	n := w.S.N
	ids := []refID{{kind: kEds}, {kind: kRow, row: 0}, {kind: kRow, row: n - 1},
		{kind: kSample, row: 0, col: 0}, {kind: kSample, row: n - 1, col: n - 1}, {kind: kSample, row: 0, col: n - 1},
		{kind: kRange, from: 0, to: 1}, {kind: kRange, from: area - 1, to: area}, {kind: kRange, from: 0, to: area}}
	for _, p := range sq.Probes() {
		ids = append(ids, refID{kind: kNd, ns: p.NS.Bytes()})
	}
	for _, id := range ids {
		id.height = w.height
		raw := refEncode(id)
		mode := "typed"
		if classify(id.kind, raw, w).class == expRefuse {
			mode = "raw"
		}
		reqs = append(reqs, spec{kind: id.kind, mode: mode, raw: raw, fault: faultAlphabet[0]})
	}
	return reqs
}

// otherBlock: the corner requests for the second block the server holds at the same time.
func otherBlock(w *world) []spec {
	if w.alt == nil {
		return nil
	}
	out := cornerRequests(w.alt)
	for i := range out {
		out[i].group = "other-block"
	}
	return out
}

// faultCases: the fault alphabet on well-formed requests (all of them, or the corner list)
// and on a request for a height that is not held.
func faultCases(w *world, all bool) []spec {
	var reqs []spec
	if all {
		reqs = wellFormed(w)
	} else {
		reqs = cornerRequests(w)
	}
	base := baseIDs(w)
	for k := 0; k < numKinds; k++ {
		id := base[k][0]
		id.height = w.height + 1
		reqs = append(reqs, spec{kind: k, mode: "typed", raw: refEncode(id)})
	}
	var out []spec
	for _, r := range reqs {
		for _, f := range faultAlphabet[1:] {
			out = append(out, spec{kind: r.kind, mode: r.mode, raw: r.raw, fault: f, group: "faults"})
		}
	}
	return out
}

// ---------------------------------------------------------------------------
// sequences of requests served from one long-lived accessor

// seqRows: first / last row of the data half and of the parity half.
func seqRows(w *world) []int { return uniqInts([]int{0, w.S.W - 1, w.S.W, w.S.N - 1}) }

// seqElems: the well-formed requests that touch EDS row r: a sample in the row (first and last
// column), the namespace data of the namespace the row starts with, the longest
// single-namespace range starting at the row's first share, the row itself, the whole square.
// (Namespace data and ranges exist for rows of the data half only.)
func seqElems(w *world, r int) []refID {
	ids := []refID{{kind: kSample, row: r, col: 0}, {kind: kSample, row: r, col: w.S.N - 1}}
	if r < w.S.W {
		first := w.ods[r*w.S.W].Namespace()
		if refNamespaceRequestable(first.Bytes()) {
			ids = append(ids, refID{kind: kNd, ns: append([]byte(nil), first.Bytes()...)})
		}
		to := r*w.S.W + 1
		for to < (r+1)*w.S.W && w.ods[to].Namespace().Equals(first) {
			to++
		}
		ids = append(ids, refID{kind: kRange, from: r * w.S.W, to: to})
	}
	return append(ids, refID{kind: kRow, row: r}, refID{kind: kEds})
}

// seqLabel: which persisting-accessor form the sequences of a world run on ("" = none: the
// accessor of an ODS-only world is reopened for every request).
func seqLabel(storage string) string {
	switch storage {
	case "mem":
		return "mem" // recent-blocks cache entry created by Put
	case "q4":
		return "cached-q4" // ODS+Q4 files opened once by the serving cache of store.CachedStore
	}
	return ""
}

// holdAt stores square S once more at height h in the store behind label and points the
// server at it; the first request for h creates a NEW accessor instance that then persists.
func (wk *worker) holdAt(label string, w *world, h uint64) error {
	roots := (*share.AxisRoots)(w.S.DAH)
	if label == "mem" {
		wk.cs.inner = wk.stores["mem"]
		return wk.stores["mem"].PutODSQ4(context.Background(), roots, h, w.S.EDS)
	}
	wk.cs.inner = wk.cached
	if err := wk.stores["cq4"].PutODSQ4(context.Background(), roots, h, w.S.EDS); err != nil {
		return err
	}
	if cut, ok := strings.CutPrefix(label, tornPrefix); ok {
		// The Q4 file of the block is left shorter than the quadrant (a put that died while writing
		// it); ODS file and height link are complete. The cq4 store keeps no in-memory accessor
		// (its own cache is the no-op cache), so the first request opens the files, and the
		// serving cache keeps that accessor for the following requests. A later put of the same
		// block notices the size mismatch and rewrites the files, so every sequence starts torn.
		size := int64(w.S.W * w.S.W * 512)
		n, ok := map[string]int64{"0": 0, "half": size / 2, "size-1": size - 1}[cut]
		if !ok {
			return fmt.Errorf("unknown truncation %q", cut)
		}
		path := filepath.Join(wk.dir, "cq4", "blocks", share.DataHash(w.S.DAH.Hash()).String()+".q4")
		if err := os.Truncate(path, n); err != nil {
			return fmt.Errorf("truncating the Q4 file: %w", err)
		}
	}
	return nil
}

// tornPrefix + {0, half, size-1}: the cached-q4 form over a block whose Q4 file is incomplete.
const tornPrefix = "torn-q4:"

var tornCuts = []string{"0", "half", "size-1"}

func (wk *worker) dropAt(label string, w *world, hs []uint64) {
	st := wk.stores["mem"]
	if label != "mem" {
		st = wk.stores["cq4"]
	}
	for _, h := range hs {
		_ = st.RemoveODSQ4(context.Background(), h, w.S.DAH.Hash())
	}
}

// runSequences executes every ordered pair (triples: every ordered triple) of seqElems of each
// seqRows row against ONE accessor instance per sequence (a fresh height is put for every
// sequence, nothing is re-put inside it); every exchange is judged by the ordinary oracle.
func (wk *worker) runSequences(w *world, lay string, li int, triples, allCuts bool) error {
	label := seqLabel(w.storage)
	if label == "" {
		return nil
	}
	next := w.height + 20
	var used []uint64
	defer func() {
		wk.before = nil
		wk.dropAt(label, w, used)
		wk.cs.inner = wk.stores[w.storage]
	}()
	runSeqOn := func(label, group string, ids []refID) error {
		h := next
		next++
		if next >= w.height+990 {
			return fmt.Errorf("sequence heights exhausted for %s", lay)
		}
		used = append(used, h)
		if err := wk.holdAt(label, w, h); err != nil {
			return err
		}
		sw := &world{S: w.S, height: h, storage: label, ods: w.ods}
		wk.before = nil
		for _, id := range ids {
			id.height = h
			raw := refEncode(id)
			wk.run(spec{kind: id.kind, mode: "typed", raw: raw, fault: faultAlphabet[0], group: group}, sw, lay)
			wk.st.Distinct++
			wk.st.SeqSteps++
			wk.before = append(wk.before, seqStep{Kind: kindNames[id.kind], Raw: hexs(raw)})
		}
		wk.before = nil
		wk.st.Sequences++
		if strings.HasPrefix(label, tornPrefix) {
			wk.st.TornSeqs++
		}
		if len(used) >= 64 {
			wk.dropAt(label, w, used)
			used = used[:0]
			next = w.height + 20
		}
		return nil
	}
	runSeq := func(ids []refID) error { return runSeqOn(label, fmt.Sprintf("sequence-%d", len(ids)), ids) }
	for ri, r := range seqRows(w) {
		el := seqElems(w, r)
		for _, a := range el {
			for _, b := range el {
				if err := runSeq([]refID{a, b}); err != nil {
					return err
				}
			}
		}
		// triples on the first row of each half
		if triples && (ri == 0 || r == w.S.W) {
			for _, a := range el {
				for _, b := range el {
					for _, c := range el {
						if err := runSeq([]refID{a, b, c}); err != nil {
							return err
						}
					}
				}
			}
		}
	}
	// Incomplete Q4 file behind the persisting file accessor: (a) the whole single-request sweep in
	// its usual order on ONE accessor instance per truncation, (b) every ordered pair (repetition
	// included) of the requests touching the first data row, the first and the last parity row
	// and the whole square - so a parity request follows a parity request for ANOTHER row.
	if w.storage == "q4" && !share.DataHash(w.S.DAH.Hash()).IsEmptyEDS() {
		var sweep []refID
		for _, sp := range wellFormed(w) {
			if e := classify(sp.kind, sp.raw, w); e.class == expData {
				sweep = append(sweep, e.id)
			}
		}
		var el []refID
		for _, r := range uniqInts([]int{0, w.S.W, w.S.N - 1}) {
			for _, id := range seqElems(w, r) {
				if id.kind != kEds {
					el = append(el, id)
				}
			}
		}
		el = append(el, refID{kind: kEds})
		cuts := tornCuts
		if !allCuts {
			cuts = tornCuts[li%3 : li%3+1]
		}
		for _, cut := range cuts {
			if err := runSeqOn(tornPrefix+cut, "torn-q4-sweep", sweep); err != nil {
				return err
			}
		}
		for _, cut := range cuts {
			for _, a := range el {
				for _, b := range el {
					if err := runSeqOn(tornPrefix+cut, "torn-q4-sequence-2", []refID{a, b}); err != nil {
						return err
					}
				}
			}
		}
	}
	return nil
}

// ---------------------------------------------------------------------------
// plan

func layoutsFor(tier string) []sq.Layout {
	var ls []sq.Layout
	ls = append(ls, sq.Layouts(1, 0, nil)...)
	if tier == "thorough" {
		ls = append(ls, sq.Layouts(2, 0, []int{0, 1})...)
		ls = append(ls, sq.Layouts(4, 3, nil)...)
		ls = append(ls, sq.Fixed8()...)
	} else {
		ls = append(ls, sq.Layouts(2, 0, nil)...)
		ls = append(ls, sq.Layouts(4, 2, nil)...)
	}
	return ls
}

// storagesOf: which storage forms a layout is served from. Quick: all three for widths <= 2,
// one (rotating with the layout index) for width 4. Thorough: all three for every layout.
func storagesOf(tier string, l sq.Layout, li int) []string {
	if tier == "thorough" || l.W <= 2 {
		return storages
	}
	return storages[li%3 : li%3+1]
}

// specsFor is the case list of one world. Every world gets every well-formed request, the
// not-held heights, the field grid at the held height, the truncations and the fault
// alphabet (on all well-formed requests for widths <= 2, on a corner list otherwise). The
// parts that do not depend on the stored data (grid repeated for zero / not-held heights,
// second truncation base, byte substitutions) run in full on the file-backed (q4) world of a
// layout, and byte substitutions only on every n-th layout.
func specsFor(w *world, tier string, layoutIdx int) []spec {
	full := w.storage == "q4" || tier == "thorough"
	var out []spec
	out = append(out, wellFormed(w)...)
	out = append(out, otherBlock(w)...)
	out = append(out, notHeld(w)...)
	out = append(out, fieldGrid(w, full)...)
	out = append(out, lengths(w, full)...)
	every := 8
	if tier == "thorough" {
		every = 4
	}
	if full && (w.S.W == 1 || layoutIdx%every == 0) {
		out = append(out, substitutions(w)...)
	}
	out = append(out, faultCases(w, w.S.W <= 2 || (tier == "thorough" && w.S.W == 4 && layoutIdx%8 == 0))...)
	return out
}

// ---------------------------------------------------------------------------
// the test

func quiet() { logging.SetAllLoggers(logging.LevelFatal) }

func assertRegistry() error {
	have := map[string]bool{}
	for _, f := range registry {
		have[f().Name()] = true
	}
	for _, n := range kindProto {
		if !have[n] {
			return fmt.Errorf("protocol %q is not in the server registry %v", n, have)
		}
	}
	if len(have) != numKinds {
		return fmt.Errorf("server registry has %d protocols, harness knows %d", len(have), numKinds)
	}
	return nil
}

func tmpRoot() string {
	if d := os.Getenv("VERIF_TMP"); d != "" {
		return d
	}
	return os.TempDir()
}

// job is one unit of work of a shard: a world (layout × storage form) or a slice of the
// short-string enumeration.
type job struct {
	li      int
	lay     sq.Layout
	storage string
	short   int // >0: short strings of protocol kind short-1, part shortPart of shortParts
	part    int
}

const shortParts = 4

func planJobs(tier string, seed int64) ([]job, []sq.Layout) {
	layouts := layoutsFor(tier)
	if seed != 0 && len(layouts) > 0 { // the seed only rotates the order
		k := int(uint64(seed) % uint64(len(layouts)))
		layouts = append(append([]sq.Layout(nil), layouts[k:]...), layouts[:k]...)
	}
	var jobs []job
	for li, l := range layouts {
		for _, sf := range storagesOf(tier, l, li) {
			jobs = append(jobs, job{li: li, lay: l, storage: sf})
		}
	}
	// spread the short-string slices over the job list (they are cheap and uniform)
	step := len(jobs)/(numKinds*shortParts) + 1
	var out []job
	n := 0
	for i, j := range jobs {
		out = append(out, j)
		if i%step == 0 && n < numKinds*shortParts {
			out = append(out, job{short: n/shortParts + 1, part: n % shortParts})
			n++
		}
	}
	for ; n < numKinds*shortParts; n++ {
		out = append(out, job{short: n/shortParts + 1, part: n % shortParts})
	}
	return out, layouts
}

const shortLen = 2

// shardOut is what a shard process hands to the parent.
type shardOut struct {
	Stats    *stats       `json:"stats"`
	Findings []findingRec `json:"findings"`
	Samples  []vCase      `json:"samples"`
	Capped   bool         `json:"capped"`
	Infra    string       `json:"infra"`
	DetCases int          `json:"det_cases"`
	JobsDone int          `json:"jobs_done"`
	WallS    float64      `json:"wall_s"`
}

// runShard executes jobs i, i+n, i+2n, ... in this process (single P: client and handler
// goroutine hand over to each other without cross-thread wake-ups).
func runShard(t *testing.T, tier string, seed int64, idx, n int, deadline time.Time, dir string) *shardOut {
	t0 := time.Now()
	out := &shardOut{Stats: newStats()}
	wk, err := newWorker(t, dir)
	if err != nil {
		out.Infra = err.Error()
		return out
	}
	defer func() {
		wk.close()
		out.Stats.merge(wk.st)
		for _, sig := range wk.sink.order {
			out.Findings = append(out.Findings, *wk.sink.findings[sig])
		}
		out.Samples = wk.sink.samples
		out.WallS = time.Since(t0).Seconds()
	}()
	jobs, _ := planJobs(tier, seed)

	if idx == 0 {
		// determinism self-check: one world twice, outcome logs must be identical
		l := sq.MustParse("w2:TX1,A2,TAIL1")[0]
		var logs [2][]string
		for round := 0; round < 2; round++ {
			w, err := newWorld(l, 5000, "q4")
			if err != nil {
				out.Infra = err.Error()
				return out
			}
			if err := wk.hold(w); err != nil {
				out.Infra = err.Error()
				return out
			}
			for _, sp := range specsFor(w, tier, 0) {
				o, _ := wk.run(sp, w, l.String())
				logs[round] = append(logs[round], kindNames[sp.kind]+" "+hexs(sp.raw)+" "+sp.fault.Name+" "+o)
			}
			wk.drop(w)
		}
		for i := range logs[0] {
			if i >= len(logs[1]) || logs[0][i] != logs[1][i] {
				out.Infra = fmt.Sprintf("NONDETERMINISM: %q vs %q", logs[0][i], logs[1][min(i, len(logs[1])-1)])
				return out
			}
		}
		out.DetCases = len(logs[0])
		wk.st.Distinct += int64(len(logs[0])) // the second round repeats the first
	}

	var shortWorld *world
	for i := idx; i < len(jobs); i += n {
		if time.Now().After(deadline) {
			out.Capped = true
			return out
		}
		j := jobs[i]
		if j.short > 0 {
			if shortWorld == nil {
				l := sq.MustParse("w2:TX1,A2,TAIL1")[0]
				shortWorld, err = newWorld(l, 7000, "q4")
				if err != nil {
					out.Infra = err.Error()
					return out
				}
				if err := wk.hold(shortWorld); err != nil {
					out.Infra = err.Error()
					return out
				}
			}
			wk.cs.inner = wk.stores["q4"]
			cnt := 0
			stopped := false
			shortStrings(shortLen, func(sp spec) bool {
				if sp.kind != j.short-1 {
					return true
				}
				if len(sp.raw) < 2 && j.part != 0 {
					return true
				}
				if len(sp.raw) == 2 && int(sp.raw[0])%shortParts != j.part {
					return true
				}
				if cnt%8192 == 8191 && time.Now().After(deadline) {
					stopped = true
					return false
				}
				wk.run(sp, shortWorld, shortWorld.S.Layout.String())
				wk.st.Distinct++
				wk.st.Short++
				cnt++
				return true
			})
			if stopped {
				out.Capped = true
				return out
			}
			out.JobsDone++
			continue
		}
		w, err := newWorld(j.lay, uint64(10000+1000*i), j.storage)
		if err != nil {
			out.Infra = err.Error()
			return out
		}
		if err := wk.hold(w); err != nil {
			out.Infra = fmt.Sprintf("storing %s: %v", j.lay, err)
			return out
		}
		specs := specsFor(w, tier, j.li)
		seen := make(map[string]struct{}, len(specs))
		lay := j.lay.String()
		for _, sp := range specs {
			key := string(rune('0'+sp.kind)) + sp.fault.Name + sp.mode + string(sp.raw)
			if _, dup := seen[key]; dup {
				continue
			}
			seen[key] = struct{}{}
			wk.run(sp, w, lay)
			wk.st.Distinct++
		}
		triples := tier == "thorough" && (j.lay.W <= 2 || j.li%4 == 0)
		if err := wk.runSequences(w, lay, j.li, triples, tier == "thorough"); err != nil {
			out.Infra = err.Error()
			return out
		}
		wk.st.Worlds++
		wk.st.PerWidth[fmt.Sprintf("w%d", j.lay.W)]++
		wk.st.PerStorage[j.storage]++
		wk.drop(w)
		out.JobsDone++
	}
	return out
}

func TestVerifC09(t *testing.T) {
	quiet()
	// shard process: do the work, write the result file, nothing else
	if sh := os.Getenv("VERIF_C09_SHARD"); sh != "" {
		var idx, n int
		var dl int64
		if _, err := fmt.Sscanf(sh, "%d/%d/%d", &idx, &n, &dl); err != nil {
			t.Fatal(err)
		}
		seed, _ := strconv.ParseInt(os.Getenv("VERIF_SEED"), 10, 64)
		out := runShard(t, vx.TierFromEnv(), seed, idx, n, time.UnixMilli(dl), os.Getenv("VERIF_C09_DIR"))
		b, _ := json.Marshal(out)
		if err := os.WriteFile(os.Getenv("VERIF_C09_OUT"), b, 0o644); err != nil {
			t.Fatal(err)
		}
		return
	}

	rep := vx.NewReport("C09", "model_checking")
	rep.Rule = "bounded-exhaustive inputs on the real shrex Server (all five registered handlers behind the recovery middleware, real store) and real Client over an in-memory stream pair: " +
		"for every namespace layout of the stated ODS widths stored in the stated storage forms (recent cache / ODS+Q4 files / ODS file), every well-formed request (whole square, every EDS row, every EDS coordinate, every probe namespace incl. absent ones, every [from,to) ODS range), " +
		"every kind × heights not held, every field at and beyond its bound (grid), zero height, malformed / reserved / parity namespaces, from >= to, huge ranges, every truncation, over-long encodings, single-byte substitutions, all byte strings of length <= 2, " +
		"an explicit fault alphabet (memory reservation denied, write failures, store / accessor errors and panics, service-scope failure), and every ordered pair (thorough: also triple) of well-formed requests touching the same EDS row served from ONE persisting accessor instance (recent-cache entry / serving cache over the files), including file-backed accessors of blocks whose Q4 file is incomplete (0 bytes / half / size-1: whole sweep and every ordered pair across data row, first and last parity row and whole square on one accessor); a case is one (square, storage, protocol, request bytes, fault) executed end to end; it is distinct by that tuple (duplicates produced by two enumerators are dropped before execution) and non-trivial because the real handler ran for it"
	rep.Assumptions = []string{
		"the in-memory host/stream/scope transport bytes and record calls faithfully; the handler receives its stream after the opener's first write (lazy negotiation); stream deadlines are enforced only in the stalled-client scenario (synctest bubble, fake clock)",
		"reference: rsmt2d square and DataAvailabilityHeader of verifx/sq; independent big-endian encoder/decoder of the five identifiers; namespace validity re-stated independently of go-square",
		"a range whose shares span several namespaces is outside the RangeNamespaceData contract (documented single-namespace container): only 'accepted => equal' is judged for it",
		"trailing bytes after a complete fixed-size identifier are not visible to a server that reads a fixed-size prefix: such requests may be served as their prefix or refused",
		"panics recovered by the recovery middleware are counted; only an escaping panic is judged as a crash",
		"the per-IP rate limiter is exercised only through the loopback exemption; libp2p resource-manager policy is replaced by accept-all / deny-all / per-stream-limit scopes",
	}
	if err := assertRegistry(); err != nil {
		rep.Infra(err.Error())
		t.Fatal(err)
	}
	if p := os.Getenv("VERIF_REPLAY"); p != "" {
		replayC09(t, rep, p)
		return
	}
	deadline := rep.Deadline(80*time.Second, 17*time.Minute)
	tier := rep.Tier
	jobs, layouts := planJobs(tier, rep.Seed)
	perWidthLayouts, perWidthWorlds := map[int]int{}, map[int]int{}
	for _, l := range layouts {
		perWidthLayouts[l.W]++
	}
	for _, j := range jobs {
		if j.short == 0 {
			perWidthWorlds[j.lay.W]++
		}
	}

	root, err := os.MkdirTemp(tmpRoot(), "c09-")
	if err != nil {
		t.Fatal(err)
	}
	defer os.RemoveAll(root)

	// shard processes, one P each
	nw := vx.Workers()
	outs := make([]*shardOut, nw)
	errs := make([]string, nw)
	var wg sync.WaitGroup
	tShards := time.Now()
	for i := 0; i < nw; i++ {
		wg.Add(1)
		go func(i int) {
			defer wg.Done()
			outFile := filepath.Join(root, fmt.Sprintf("shard-%02d.json", i))
			cmd := exec.Command(os.Args[0], "-test.run=^TestVerifC09$", "-test.count=1", "-test.timeout=0")
			cmd.Env = append(os.Environ(),
				fmt.Sprintf("VERIF_C09_SHARD=%d/%d/%d", i, nw, deadline.UnixMilli()),
				"VERIF_C09_OUT="+outFile,
				"VERIF_C09_DIR="+filepath.Join(root, fmt.Sprintf("store-%02d", i)),
				"GOMAXPROCS=1", "VERIF_EVIDENCE=", "VERIF_REPLAY=")
			b, err := cmd.CombinedOutput()
			if err != nil {
				tail := string(b)
				if len(tail) > 3000 {
					tail = tail[len(tail)-3000:]
				}
				errs[i] = fmt.Sprintf("shard %d: %v\n%s", i, err, tail)
				return
			}
			data, err := os.ReadFile(outFile)
			if err != nil {
				errs[i] = fmt.Sprintf("shard %d: %v", i, err)
				return
			}
			var so shardOut
			if err := json.Unmarshal(data, &so); err != nil {
				errs[i] = fmt.Sprintf("shard %d: %v", i, err)
				return
			}
			outs[i] = &so
		}(i)
	}
	wg.Wait()
	shardWall := time.Since(tShards).Seconds()
	for _, e := range errs {
		if e != "" {
			rep.Infra(e)
			t.Fatal(e)
		}
	}
	total := newStats()
	capped := false
	jobsDone, detCases := 0, 0
	var shardWalls []float64
	for _, so := range outs {
		if so.Infra != "" {
			rep.Infra(so.Infra)
			t.Fatal(so.Infra)
		}
		total.merge(so.Stats)
		capped = capped || so.Capped
		jobsDone += so.JobsDone
		detCases += so.DetCases
		shardWalls = append(shardWalls, so.WallS)
		for _, f := range so.Findings {
			for k := 0; k < f.Count; k++ {
				rep.Violation(f.Sig, f.What, f.Case)
			}
		}
	}
	for _, so := range outs {
		for _, c := range so.Samples {
			rep.AddSample(c)
		}
	}

	// stalled clients: a request prefix without closing the write side, fake clock
	tStall := time.Now()
	stallStats := stallScenario(t, rep)
	rep.Set("stalled_client", stallStats)
	rep.Set("phase_wall_s", map[string]any{"shards": shardWall, "per_shard": shardWalls, "stalled_client": time.Since(tStall).Seconds()})

	rep.Count(total.Cases+stallStats["cases"], total.Distinct+stallStats["cases"], total.Distinct+stallStats["cases"], total.Events+stallStats["events"])
	rep.SetExhaustive(!capped)
	widths := map[string]any{}
	for w, n := range perWidthLayouts {
		widths[fmt.Sprintf("w%d", w)] = map[string]any{"layouts_planned": n, "worlds_planned": perWidthWorlds[w], "worlds_completed": total.PerWidth[fmt.Sprintf("w%d", w)]}
	}
	rep.Set("bounds", widths)
	rep.Set("shard_processes", nw)
	rep.Set("jobs_planned", len(jobs))
	rep.Set("jobs_completed", jobsDone)
	rep.Set("worlds_completed", total.Worlds)
	rep.Set("capped_by_deadline", capped)
	rep.Set("determinism_selfcheck_cases", detCases)
	rep.Set("short_strings_max_len", shortLen)
	rep.Set("short_strings_executed", total.Short)
	rep.Set("positive_controls_accepted_with_exact_data", total.Accepted)
	rep.Set("not_held_answered_not_found", total.NotFound)
	rep.Set("malformed_refused", total.Refused)
	rep.Set("mixed_namespace_ranges", total.Mixed)
	rep.Set("fault_cases", total.Faulted)
	rep.Set("request_sequences_on_one_accessor", total.Sequences)
	rep.Set("request_sequence_exchanges", total.SeqSteps)
	rep.Set("sequences_over_incomplete_q4_file", total.TornSeqs)
	rep.Set("overlong_requests", total.Overlong)
	rep.Set("panics_recovered_by_middleware", total.Recovered)
	rep.Set("over_release_observed", total.OverRel)
	rep.Set("per_group", total.PerGroup)
	gms := map[string]int64{}
	for k, v := range total.GroupNs {
		gms[k] = v / 1e6
	}
	rep.Set("worker_ms_per_group", gms)
	rep.Set("per_kind", total.PerKind)
	rep.Set("per_storage_worlds", total.PerStorage)
	rep.Set("per_fault", total.PerFault)
	rep.Set("distinct_outcomes", len(total.Outcomes))
	rep.Set("outcome_histogram", total.Outcomes)
	if total.Accepted == 0 || total.NotFound == 0 || total.Refused == 0 {
		rep.Infra("vacuous run: no accepted / not-found / refused case")
		t.Fatal("vacuous")
	}
	if rep.Finish() > 0 {
		t.Fail()
	}
}

// stallScenario: for every protocol and every proper prefix of a valid request the client
// writes the prefix and then neither writes nor closes. The handler must give up on its own
// (read deadline) and reset the stream; it must not stay blocked. Runs on the fake clock of
// a synctest bubble with deadline-enforcing streams.
func stallScenario(t *testing.T, rep *vx.Report) map[string]int64 {
	res := map[string]int64{}
	synctest.Test(t, func(t *testing.T) {
		h := newFHost()
		h.enforce = true
		srv, err := NewServer(DefaultServerParameters(), h, emptyStore{})
		if err != nil {
			t.Fatal(err)
		}
		if err := srv.Start(context.Background()); err != nil {
			t.Fatal(err)
		}
		defer srv.Stop(context.Background()) //nolint:errcheck
		for k := 0; k < numKinds; k++ {
			id := refID{kind: k, height: 42, row: 1, col: 1, ns: sq.A.Namespace().Bytes(), from: 0, to: 1}
			enc := refEncode(id)
			for n := 0; n <= len(enc); n++ {
				s, err := h.NewStream(context.Background(), h.ID(), ProtocolID("", kindProto[k]))
				if err != nil {
					t.Fatal(err)
				}
				ex := h.last
				if n > 0 {
					if _, err := s.Write(enc[:n]); err != nil {
						t.Fatal(err)
					}
				}
				s.(*fstream).start()
				time.Sleep(srv.params.ReadTimeout + srv.params.HandleRequestTimeout + srv.params.WriteTimeout + time.Second)
				synctest.Wait()
				returned := false
				select {
				case <-ex.done:
					returned = true
				default:
				}
				res["cases"]++
				c := vCase{Kind: kindNames[k], Mode: "stall", Raw: hexs(enc[:n]), Fault: "none", Group: "stalled-client"}
				ex.mu.Lock()
				resets, written, escaped := len(ex.resets), len(ex.written), ex.escaped
				res["events"] += int64(ex.writes + len(ex.resets) + ex.closed + ex.readDeadlines + 1)
				ex.mu.Unlock()
				switch {
				case !returned:
					rep.Violation("C09/wedge/stalled-client/"+kindNames[k], fmt.Sprintf("handler still blocked %v after a client sent %d of %d request bytes and went silent",
						srv.params.ReadTimeout+srv.params.HandleRequestTimeout+srv.params.WriteTimeout+time.Second, n, len(enc)), c)
					res["wedged"]++
				case escaped != nil:
					rep.Violation("C09/crash/panic-escaped-handler/"+kindNames[k]+"/stall", fmt.Sprintf("panic escaped: %v", escaped), c)
				case n < len(enc) && (resets == 0 || written > 0):
					rep.Violation("C09/malformed-no-refusal/"+kindNames[k]+"/stalled-truncated", fmt.Sprintf("truncated request of a silent client: resets=%d bytes written=%d", resets, written), c)
				case n < len(enc):
					res["reset_after_deadline"]++
				default:
					res["complete_request_answered"]++
				}
				_ = s.Reset() // unblock whatever is left so the bubble can end
				synctest.Wait()
			}
		}
	})
	return res
}

// ---------------------------------------------------------------------------
// replay

func replayC09(t *testing.T, rep *vx.Report, path string) {
	b, err := os.ReadFile(path)
	if err != nil {
		t.Fatal(err)
	}
	var doc struct {
		Signature string `json:"signature"`
		Replay    vCase  `json:"replay"`
	}
	if err := json.Unmarshal(b, &doc); err != nil {
		t.Fatal(err)
	}
	c := doc.Replay
	if c.Mode == "stall" {
		st := stallScenario(t, rep)
		fmt.Printf("REPLAY-RESULT stalled-client scenario re-run: %v\n", st)
		rep.Count(st["cases"], 2, 1, st["events"]+1)
		rep.AddSample(c)
		rep.SetExhaustive(false)
		if rep.Finish() > 0 {
			t.Fail()
		}
		return
	}
	l, err := sq.ParseLayout(c.Layout)
	if err != nil {
		t.Fatal(err)
	}
	raw, err := hex.DecodeString(c.Raw)
	if err != nil {
		t.Fatal(err)
	}
	f, ok := faultByName(c.Fault)
	if !ok {
		t.Fatalf("unknown fault %q", c.Fault)
	}
	kind := kindByName(c.Kind)
	if kind < 0 {
		t.Fatalf("unknown kind %q", c.Kind)
	}
	root, err := os.MkdirTemp(tmpRoot(), "c09-replay-")
	if err != nil {
		t.Fatal(err)
	}
	defer os.RemoveAll(root)
	fails := 0
	var events int64
	for i := 0; i < 5; i++ {
		wk, err := newWorker(t, filepath.Join(root, fmt.Sprint(i)))
		if err != nil {
			t.Fatal(err)
		}
		held := c.Held
		if held == 0 {
			held = 424242
		}
		isSeq := strings.HasPrefix(c.Group, "sequence") || strings.HasPrefix(c.Group, "torn-q4")
		base := c.Storage
		if isSeq {
			// the block is held once in the base storage form and once more at the height the
			// sequence names
			held = 424242
			base = "mem"
			if c.Storage != "mem" {
				base = "q4"
			}
		}
		w, err := newWorld(l, held, base)
		if err != nil {
			t.Fatal(err)
		}
		if err := wk.hold(w); err != nil {
			t.Fatal(err)
		}
		rw := w
		if isSeq {
			// sequence case: one more copy of the block at the height the requests name, then the
			// earlier requests on the same accessor instance
			if len(raw) < 8 {
				t.Fatal("sequence case with a truncated request")
			}
			h := refDecode(kEds, raw[:8]).height
			if err := wk.holdAt(c.Storage, w, h); err != nil {
				t.Fatal(err)
			}
			rw = &world{S: w.S, height: h, storage: c.Storage, ods: w.ods}
			for _, st := range c.Before {
				braw, err := hex.DecodeString(st.Raw)
				if err != nil {
					t.Fatal(err)
				}
				bo, _ := wk.run(spec{kind: kindByName(st.Kind), mode: "typed", raw: braw, fault: faultAlphabet[0], group: "replay-before"}, rw, c.Layout)
				fmt.Printf("REPLAY-RESULT run=%d before %s %s -> %s\n", i+1, st.Kind, st.Raw, bo)
				wk.before = append(wk.before, st)
			}
		}
		out, fs := wk.run(spec{kind: kind, mode: c.Mode, raw: raw, fault: f, group: "replay"}, rw, c.Layout)
		if len(fs) > 0 {
			fails++
		}
		fmt.Printf("REPLAY-RESULT run=%d outcome=%s findings=%d\n", i+1, out, len(fs))
		for _, sig := range wk.sink.order {
			f := wk.sink.findings[sig]
			rep.Violation(f.Sig, f.What, f.Case)
		}
		events += wk.st.Events
		wk.drop(w)
		wk.close()
	}
	fmt.Printf("REPLAY-RESULT failed %d/5\n", fails)
	rep.Count(5, 2, 1, events+1)
	rep.AddSample(c)
	rep.SetExhaustive(false)
	if rep.Finish() > 0 {
		t.Fail()
	}
}

