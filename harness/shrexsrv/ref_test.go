package shrex

// Reference side of the C09 oracle: an independent wire encoder / decoder of the five
// request identifiers, the classification of a request byte string against the block the
// server holds, and the client-side verification exactly as the shrex getter performs it,
// compared byte-for-byte with the rsmt2d reference square of verifx/sq.

import (
	"bytes"
	"context"
	"encoding/binary"
	"encoding/hex"
	"fmt"

	libshare "github.com/celestiaorg/go-square/v4/share"

	"github.com/celestiaorg/celestia-node/share"
	"github.com/celestiaorg/celestia-node/share/eds"
	"github.com/celestiaorg/celestia-node/share/shwap"
	"github.com/celestiaorg/celestia-node/verifx/sq"
)

// protocol kinds, in a fixed order
const (
	kEds = iota
	kRow
	kSample
	kNd
	kRange
	numKinds
)

var kindNames = [numKinds]string{"eds", "row", "sample", "nd", "range"}

// wire sizes, written out independently of the constants of package shwap
var kindSize = [numKinds]int{8, 10, 12, 8 + 29, 16}

// protocol names as registered by the server (asserted against the registry at start-up)
var kindProto = [numKinds]string{"eds_v0", "row_v0", "sample_v0", "nd_v0", "rangeNamespaceData_v0"}

func kindByName(n string) int {
	for i, s := range kindNames {
		if s == n {
			return i
		}
	}
	return -1
}

// refID is a decoded request.
type refID struct {
	kind     int
	height   uint64
	row, col int
	ns       []byte
	from, to int
}

func (id refID) String() string {
	switch id.kind {
	case kEds:
		return fmt.Sprintf("eds(h=%d)", id.height)
	case kRow:
		return fmt.Sprintf("row(h=%d,r=%d)", id.height, id.row)
	case kSample:
		return fmt.Sprintf("sample(h=%d,r=%d,c=%d)", id.height, id.row, id.col)
	case kNd:
		return fmt.Sprintf("nd(h=%d,ns=%x)", id.height, id.ns)
	default:
		return fmt.Sprintf("range(h=%d,[%d,%d))", id.height, id.from, id.to)
	}
}

// refEncode is the independent encoder (big endian, fixed width).
func refEncode(id refID) []byte {
	b := binary.BigEndian.AppendUint64(nil, id.height)
	switch id.kind {
	case kRow:
		b = binary.BigEndian.AppendUint16(b, uint16(id.row))
	case kSample:
		b = binary.BigEndian.AppendUint16(b, uint16(id.row))
		b = binary.BigEndian.AppendUint16(b, uint16(id.col))
	case kNd:
		b = append(b, id.ns...)
	case kRange:
		b = binary.BigEndian.AppendUint32(b, uint32(id.from))
		b = binary.BigEndian.AppendUint32(b, uint32(id.to))
	}
	return b
}

// refDecode decodes exactly kindSize[kind] bytes.
func refDecode(kind int, b []byte) refID {
	id := refID{kind: kind, height: binary.BigEndian.Uint64(b[:8])}
	switch kind {
	case kRow:
		id.row = int(binary.BigEndian.Uint16(b[8:10]))
	case kSample:
		id.row = int(binary.BigEndian.Uint16(b[8:10]))
		id.col = int(binary.BigEndian.Uint16(b[10:12]))
	case kNd:
		id.ns = append([]byte(nil), b[8:37]...)
	case kRange:
		id.from = int(binary.BigEndian.Uint32(b[8:12]))
		id.to = int(binary.BigEndian.Uint32(b[12:16]))
	}
	return id
}

var (
	parityNS = bytes.Repeat([]byte{0xFF}, 29)
	// tail padding = version 0xFF, id = 27 bytes 0xFF followed by 0xFE
	tailNS = append(bytes.Repeat([]byte{0xFF}, 28), 0xFE)
)

func init() {
	if !bytes.Equal(tailNS, libshare.TailPaddingNamespace.Bytes()) || !bytes.Equal(parityNS, libshare.ParitySharesNamespace.Bytes()) {
		panic("harness: reserved namespace constants changed")
	}
}

// refNamespaceRequestable: may this namespace be asked for (independent of go-square's
// validation code): version 0 with 18 leading zero id bytes, or version 255; never the
// parity or the tail-padding namespace.
func refNamespaceRequestable(ns []byte) bool {
	if len(ns) != 29 {
		return false
	}
	switch ns[0] {
	case 0:
		for _, x := range ns[1:19] {
			if x != 0 {
				return false
			}
		}
	case 255:
	default:
		return false
	}
	return !bytes.Equal(ns, parityNS) && !bytes.Equal(ns, tailNS)
}

// expectation classes
const (
	expData     = "data"      // well-formed, held: client must accept, data must equal the reference
	expNotFound = "not-found" // well-formed, height not held: 'not found'
	expRefuse   = "refuse"    // malformed / truncated / out of bounds: error status or reset
	expMixedNS  = "mixed-ns"  // in-bounds range whose shares span several namespaces: outside the
	// container's contract ("shares must all belong to the same namespace"); only wrong data is judged
)

// world is what the server holds while a case runs: one square at one height.
type world struct {
	S       *sq.Square
	height  uint64
	storage string
	ods     []libshare.Share
	// alt: a second, different block (same layout, other payload) the server holds at another
	// height at the same time; a request must be answered from the block it names
	alt *world
}

type expectation struct {
	w        *world // the block the request names (nil: none)
	class    string
	why      string
	id       refID
	overlong bool // trailing bytes after a complete identifier: the server reads a fixed-size prefix
}

// classify decides what the property demands for request bytes raw on protocol kind.
func classify(kind int, raw []byte, w *world) expectation {
	n := kindSize[kind]
	if len(raw) < n {
		return expectation{class: expRefuse, why: "truncated"}
	}
	e := expectation{overlong: len(raw) > n}
	id := refDecode(kind, raw[:n])
	e.id = id
	refuse := func(why string) expectation { e.class, e.why = expRefuse, why; return e }
	if id.height == 0 {
		return refuse("zero-height")
	}
	switch kind {
	case kNd:
		if !refNamespaceRequestable(id.ns) {
			return refuse("bad-namespace")
		}
	case kRange:
		if id.from >= id.to {
			return refuse("from>=to")
		}
	}
	if w != nil && w.alt != nil && id.height == w.alt.height {
		w = w.alt
	}
	if w == nil || id.height != w.height {
		e.class, e.why = expNotFound, "height-not-held"
		return e
	}
	e.w = w
	eds, ods := w.S.N, w.S.W
	switch kind {
	case kRow:
		if id.row >= eds {
			return refuse("row-out-of-bounds")
		}
	case kSample:
		if id.row >= eds || id.col >= eds {
			return refuse("coord-out-of-bounds")
		}
	case kRange:
		if id.to > ods*ods {
			return refuse("range-out-of-bounds")
		}
		first := w.ods[id.from].Namespace()
		for _, sh := range w.ods[id.from:id.to] {
			if !sh.Namespace().Equals(first) {
				e.class, e.why = expMixedNS, "range-spans-namespaces"
				return e
			}
		}
	}
	e.class, e.why = expData, "well-formed"
	return e
}

// container returns the response container the getter uses for this kind.
func newContainer(kind int) response {
	switch kind {
	case kEds:
		return new(bytes.Buffer)
	case kRow:
		return new(shwap.Row)
	case kSample:
		return new(shwap.Sample)
	case kNd:
		return new(shwap.NamespaceData)
	default:
		return new(shwap.RangeNamespaceData)
	}
}

func sharesEqual(a, b []libshare.Share) bool {
	if len(a) != len(b) {
		return false
	}
	for i := range a {
		if !bytes.Equal(a[i].ToBytes(), b[i].ToBytes()) {
			return false
		}
	}
	return true
}

// verifyAsGetter runs the client-side verification of shrex_getter on the decoded container
// (same emptiness test, same Verify call with arguments derived from the header) and then
// compares the exposed data with the reference square. verr: the verification verdict;
// equal: exposed data equals the requested data (meaningful only when verr == nil).
func verifyAsGetter(id refID, resp response, w *world) (verr error, equal bool) {
	roots := (*share.AxisRoots)(w.S.DAH)
	switch id.kind {
	case kEds:
		buf := resp.(*bytes.Buffer)
		if buf.Len() == 0 {
			return fmt.Errorf("nil response"), false
		}
		acc, err := eds.ReadAccessor(context.Background(), bytes.NewReader(buf.Bytes()), roots)
		if err != nil {
			return err, false
		}
		got := acc.ExtendedDataSquare
		if int(got.Width()) != w.S.N {
			return nil, false
		}
		for r := 0; r < w.S.N; r++ {
			for c := 0; c < w.S.N; c++ {
				cell := w.S.Cell(r, c)
				if !bytes.Equal(got.GetCell(uint(r), uint(c)), cell.ToBytes()) {
					return nil, false
				}
			}
		}
		return nil, true
	case kRow:
		row := resp.(*shwap.Row)
		if row.IsEmpty() {
			return fmt.Errorf("nil response"), false
		}
		if err := row.Verify(roots, id.row); err != nil {
			return err, false
		}
		shrs, err := row.Shares()
		if err != nil {
			return nil, false
		}
		return nil, sharesEqual(shrs, w.S.Row(id.row))
	case kSample:
		s := resp.(*shwap.Sample)
		if s.IsEmpty() {
			return fmt.Errorf("nil response"), false
		}
		if err := s.Verify(roots, id.row, id.col); err != nil {
			return err, false
		}
		cell := w.S.Cell(id.row, id.col)
		return nil, bytes.Equal(s.Share.ToBytes(), cell.ToBytes())
	case kNd:
		nd := resp.(*shwap.NamespaceData)
		ns, err := libshare.NewNamespaceFromBytes(id.ns)
		if err != nil {
			return err, false
		}
		rows, err := share.RowsWithNamespace(roots, ns)
		if err != nil {
			return err, false
		}
		// the getter does not ask at all when no row can hold the namespace; asked anyway, an
		// empty answer is the requested data
		if len(rows) > 0 && nd.IsEmpty() {
			return fmt.Errorf("nil response"), false
		}
		if err := nd.Verify(roots, ns); err != nil {
			return err, false
		}
		want, _ := w.S.NamespaceShares(ns)
		return nil, sharesEqual(nd.Flatten(), want)
	default:
		rd := resp.(*shwap.RangeNamespaceData)
		if rd.IsEmpty() {
			return fmt.Errorf("nil response"), false
		}
		ods := w.S.W
		from, err := shwap.SampleCoordsFrom1DIndex(id.from, ods)
		if err != nil {
			return err, false
		}
		to, err := shwap.SampleCoordsFrom1DIndex(id.to-1, ods)
		if err != nil {
			return err, false
		}
		if err := rd.VerifyInclusion(from, to, ods, roots.RowRoots[from.Row:to.Row+1]); err != nil {
			return err, false
		}
		return nil, sharesEqual(rd.Flatten(), w.ods[id.from:id.to])
	}
}

// typedRequest builds the request through the same constructors the getter uses. ok=false
// when the constructor refuses (then the client never sends it).
func typedRequest(id refID, w *world) (request, error) {
	switch id.kind {
	case kEds:
		r, err := shwap.NewEdsID(id.height)
		return &r, err
	case kRow:
		r, err := shwap.NewRowID(id.height, id.row, w.S.N)
		return &r, err
	case kSample:
		r, err := shwap.NewSampleID(id.height, shwap.SampleCoords{Row: id.row, Col: id.col}, w.S.N)
		return &r, err
	case kNd:
		ns, err := libshare.NewNamespaceFromBytes(id.ns)
		if err != nil {
			return nil, err
		}
		r, err := shwap.NewNamespaceDataID(id.height, ns)
		return &r, err
	default:
		e, err := shwap.NewEdsID(id.height)
		if err != nil {
			return nil, err
		}
		r, err := shwap.NewRangeNamespaceDataID(e, id.from, id.to, w.S.W)
		return &r, err
	}
}

func hexs(b []byte) string { return hex.EncodeToString(b) }
