package das

// C04 / C13, SC part: statistics and checkpoints taken WHILE workers make progress.
//
// The event search (das_harness_test.go) applies one environment event at a time and lets the
// system go quiescent in between, so a statistics request never overlaps a worker that is in the
// middle of recording results. Here the das package is compiled with `sync` / `sync/atomic`
// import-rewritten to the scheduler shims: every worker.lock acquisition (setResult by the worker,
// getState by the coordinator's statistics collection) is a scheduling point, and every
// interleaving of a statistics/checkpoint request with the running workers is enumerated up to a
// preemption bound. The sampler answers at once (ok, or an error for the listed heights).
//
// Oracle, evaluated on every snapshot the request returns, against the ground truth kept by the
// sampler fake (the set of heights sampled successfully so far; it only grows, and a height below
// a worker's reported position had its result recorded before that position was read, so using
// the set as it is when the request returns is sound):
//   C04/sc/checkpoint-loses-height  a height below the checkpoint's SampleFrom that was not
//                                   sampled successfully is neither in Failed nor inside the
//                                   range a checkpointed worker resumes
//   C13/sc/stats-sampled-head       SampledChainHead is at or above a height that was not
//                                   sampled successfully
//   C13/sc/stats-failed-missing     a worker reports a position beyond a height that failed and
//                                   the height is not in Failed (statistics disagree with what
//                                   was sampled)

import (
	"context"
	"errors"
	"fmt"
	"runtime"
	"runtime/debug"
	"sort"
	"strings"
	"testing"
	"testing/synctest"
	"time"

	"github.com/celestiaorg/celestia-node/header"
	"github.com/celestiaorg/celestia-node/verifx/vsched"
	"github.com/celestiaorg/celestia-node/verifx/vx"
)

type dscScenario struct {
	Name  string
	From  uint64   // first height to sample (checkpoint.SampleFrom)
	To    uint64   // network head
	Range uint64   // sampling range (heights per job)
	Conc  int      // concurrency limit
	Fail  []uint64 // heights whose sampling fails (every attempt)
	Stats int      // number of consecutive checkpoint requests by the statistics thread
	Head  uint64   // if > To: a new head announced by a third thread (recent job)
}

func dscScenarios(tier string) []dscScenario {
	sc := []dscScenario{
		{Name: "stats-vs-worker-fail-second", From: 1, To: 5, Range: 5, Conc: 1, Fail: []uint64{2}, Stats: 1},
		{Name: "stats-vs-worker-fail-first", From: 1, To: 4, Range: 4, Conc: 1, Fail: []uint64{1}, Stats: 1},
		{Name: "two-stats-vs-worker", From: 1, To: 4, Range: 4, Conc: 1, Fail: []uint64{2}, Stats: 2},
		{Name: "stats-vs-two-workers", From: 1, To: 4, Range: 2, Conc: 2, Fail: []uint64{1, 4}, Stats: 1},
	}
	if tier == "thorough" {
		sc = append(sc,
			dscScenario{Name: "stats-vs-worker-two-failures", From: 1, To: 6, Range: 6, Conc: 1, Fail: []uint64{2, 4}, Stats: 2},
			// (a scenario with a third thread announcing a new head is not run: the coordinator's own
			// `select` between a head, a worker result and a statistics request that are ready at the
			// same time is decided by the Go runtime, so its schedules do not replay)
			dscScenario{Name: "stats-vs-second-job", From: 1, To: 6, Range: 3, Conc: 1, Fail: []uint64{3}, Stats: 2},
		)
	}
	return sc
}

var errDscSample = errors.New("verif: sampling failed")

func dscRun(t *testing.T, sc dscScenario, e *vx.Exec, prop string) (err error) {
	var leaked any
	func() {
		defer func() { leaked = recover() }()
		synctest.Test(t, func(*testing.T) {
			sch := vsched.New(e.ChooseCost)
			sch.MaxSteps = 6000
			// only the verdicts of the property being checked count (the sibling check reports its own)
			fail := func(f string, a ...any) {
				if err == nil && strings.HasPrefix(f, prop+"/") {
					err = fmt.Errorf(f, a...)
				}
			}
			failing := map[uint64]bool{}
			for _, h := range sc.Fail {
				failing[h] = true
			}
			ok := map[uint64]bool{}
			w := &vWorld{cfg: dasCfg{}, storeHead: sc.To + 2, tail: 1}
			sample := func(ctx context.Context, h *header.ExtendedHeader) error {
				if cerr := ctx.Err(); cerr != nil {
					return cerr
				}
				if failing[h.Height()] {
					return errDscSample
				}
				sch.Update(func() { ok[h.Height()] = true })
				return nil
			}
			params := DefaultParameters()
			params.SamplingRange = sc.Range
			params.ConcurrencyLimit = sc.Conc
			coord := newSamplingCoordinator(params, vStore{w}, sample)
			runCtx, stop := context.WithCancel(context.Background())
			sch.OnAbort = stop
			okSorted := func() []uint64 {
				var hs []uint64
				sch.Update(func() {
					for h := range ok {
						hs = append(hs, h)
					}
				})
				sort.Slice(hs, func(i, j int) bool { return hs[i] < hs[j] })
				return hs
			}
			judge := func(st SamplingStats) {
				cp := newCheckpoint(st)
				sampled := map[uint64]bool{}
				for _, h := range okSorted() {
					sampled[h] = true
				}
				lowestUnsampled := uint64(0)
				for h := sc.From; h <= st.NetworkHead; h++ {
					if !sampled[h] {
						lowestUnsampled = h
						break
					}
				}
				if lowestUnsampled != 0 && st.SampledChainHead >= lowestUnsampled {
					fail("C13/sc/stats-sampled-head: SampledChainHead=%d but height %d was not sampled successfully (sampled ok: %v, stats: %s)",
						st.SampledChainHead, lowestUnsampled, okSorted(), statsStr(st))
				}
				for _, ws := range st.Workers {
					for h := ws.From; h < ws.Curr; h++ {
						if !sampled[h] {
							if _, in := st.Failed[h]; !in {
								fail("C13/sc/stats-failed-missing: worker %d..%d reports position %d, height %d below it was not sampled successfully and is not in Failed (stats: %s)",
									ws.From, ws.To, ws.Curr, h, statsStr(st))
							}
						}
					}
				}
				for h := sc.From; h < cp.SampleFrom; h++ {
					if sampled[h] {
						continue
					}
					if _, in := cp.Failed[h]; in {
						continue
					}
					covered := false
					for _, wk := range cp.Workers {
						if h >= wk.From && h <= wk.To {
							covered = true
						}
					}
					if !covered {
						fail("C04/sc/checkpoint-loses-height: height %d was not sampled successfully, and the checkpoint {SampleFrom:%d Head:%d Failed:%v Workers:%v} neither lists it as failed nor resumes a worker over it",
							h, cp.SampleFrom, cp.NetworkHead, cp.Failed, cp.Workers)
					}
				}
			}
			// the head thread may only announce once the coordinator sits in its loop: a head that is
			// already waiting when the coordinator starts would meet the first statistics request in
			// one `select`, which the Go runtime decides at random
			started := make(chan struct{})
			sch.Go("stats", func() {
				go coord.run(runCtx, checkpoint{SampleFrom: sc.From, NetworkHead: sc.To})
				if sc.Head > sc.To {
					if _, werr := coord.stats(runCtx); werr != nil {
						fail("harness: warm-up statistics request failed: %v", werr)
					}
				}
				close(started)
				for i := 0; i < sc.Stats; i++ {
					st, serr := coord.stats(runCtx)
					if serr != nil {
						break
					}
					judge(st)
					vsched.Yield("between-stats")
				}
				stop()
				wctx, cancel := context.WithTimeout(context.Background(), time.Hour)
				defer cancel()
				if werr := coord.wait(wctx); werr != nil {
					fail("C13/sc/stop-hangs: the coordinator did not finish after its context was cancelled: %v", werr)
				}
			})
			if sc.Head > sc.To {
				sch.Go("head", func() {
					select {
					case <-started:
					case <-runCtx.Done():
						return
					}
					coord.listen(runCtx, vHeader(sc.Head))
				})
			}
			res := sch.Run()
			stop()
			if res.Deadlock {
				fail("C13/sc/deadlock: %s", res.Stuck)
			}
			if res.Horizon {
				fail("C13/sc/no-termination: not finished within %d scheduling steps", sch.MaxSteps)
			}
		})
	}()
	if leaked != nil && err == nil {
		err = fmt.Errorf("harness: bubble did not end cleanly: %v", leaked)
	}
	return err
}

// dasSC explores every scenario for prop's signatures only. It returns false when a run was cut.
func dasSC(t *testing.T, rep *vx.Report, prop string, deadline time.Time) bool {
	debug.SetGCPercent(-1)
	prev := runtime.GOMAXPROCS(1)
	defer func() { runtime.GOMAXPROCS(prev); debug.SetGCPercent(100) }()
	exhaustive := true
	bounds := []int{0, 1, 2}
	if rep.Tier == "thorough" {
		bounds = []int{0, 1, 2, 3}
	}
	// scenarios with more than one worker in flight need the iteration order over the coordinator's
	// worker table to be owned (overlay rewrite vByJobID); probe whether it is active
	vByJobIDCalls = 0
	(&coordinatorState{inProgress: map[int]func() workerState{}}).unsafeStats()
	ordered := vByJobIDCalls > 0
	rep.Set("das_sc_worker_table_order_owned", ordered)
	for _, sc := range dscScenarios(rep.Tier) {
		sc := sc
		if !ordered && (sc.Conc > 1 || sc.Head > sc.To) {
			rep.Set("das_sc_"+sc.Name, map[string]any{"scenario": sc, "skipped": "iteration order of the worker table is not owned (rewrite did not apply)"})
			exhaustive = false
			continue
		}
		completed := -1
		diverged := false
		var total, points int64
		outcomes := map[string]int64{}
		for _, b := range bounds {
			st := vx.DFS(vx.DFSOpts{Bound: b, Deadline: deadline}, func(e *vx.Exec) (string, error) {
				err := dscRun(t, sc, e, prop)
				if err != nil {
					return "ERR:" + vSig(err), err
				}
				return fmt.Sprint(len(e.Choices)), nil
			}, func(e *vx.Exec, err error) {
				sig := vSig(err)
				if strings.HasPrefix(sig, "DIVERGENCE") {
					// The coordinator's own `select` between a worker result, a head and a statistics
					// request is decided by the Go runtime. On the code as it stands at most one of them
					// is ready at a time (one hooked thread runs per step and the coordinator has no
					// hooked operation); if a changed coordinator parks at a lock in between, two can be
					// ready and a prefix no longer replays. Verdicts stay sound (each is judged on what
					// really happened), only the coverage claim is lost.
					if !diverged {
						diverged = true
						fmt.Printf("VERIF-NOTE das-sc scenario=%s: a schedule prefix did not replay (%v); scenario reported as not exhaustive\n", sc.Name, err)
					}
					return
				}
				if strings.HasPrefix(sig, "harness") {
					rep.Infra(fmt.Sprintf("%v scenario=%s choices=%v", err, sc.Name, e.Choices))
					return
				}
				if !strings.HasPrefix(sig, prop+"/") {
					return // belongs to the sibling property's check
				}
				rep.Violation(sig, err.Error(), map[string]any{"part": "das-sc", "scenario": sc, "choices": e.Choices, "trace": e.Trace()})
			})
			total, points = st.Executions, st.ChoicePoints
			for k, v := range st.Outcomes {
				outcomes[k] = v
			}
			if !st.Complete || diverged {
				exhaustive = false
				break
			}
			completed = b
		}
		runtime.GC()
		rep.Count(total, int64(len(outcomes)), int64(len(outcomes)), points)
		rep.Set("das_sc_"+sc.Name, map[string]any{"scenario": sc, "preemption_bound_completed": completed,
			"schedules_at_last_bound": total, "scheduling_decisions": points, "distinct_outcomes": len(outcomes)})
	}
	return exhaustive
}
