package das

import (
	"context"
	"sort"
)

// vRetryOrder / vRetryKeys own the iteration order of `for h, attempt := range s.failed`
// in coordinatorState.retryJob (Go map order is otherwise random and would make event
// histories non-replayable). 0 = ascending heights, 1 = descending.
var vRetryOrder int

func vRetryKeys(m map[uint64]retryAttempt) func(func(uint64, retryAttempt) bool) {
	return func(yield func(uint64, retryAttempt) bool) {
		ks := make([]uint64, 0, len(m))
		for k := range m {
			ks = append(ks, k)
		}
		sort.Slice(ks, func(i, j int) bool {
			if vRetryOrder == 1 {
				return ks[i] > ks[j]
			}
			return ks[i] < ks[j]
		})
		for _, k := range ks {
			if !yield(k, m[k]) {
				return
			}
		}
	}
}

// vJobCtx tags the context handed to the sampler with the job of the calling worker, so the
// harness can name a pending sampler call by the worker it belongs to (injected into
// worker.sample by a textual rewrite of `w.sampleFn(ctx, h)`).
type vJobKey struct{}

func vJobCtx(ctx context.Context, j job) context.Context {
	return context.WithValue(ctx, vJobKey{}, j)
}

// vByJobID owns the iteration order of `range s.inProgress` (a Go map): under the scheduler the
// order in which the coordinator locks the workers' states must be the same in every replay.
// vByJobIDCalls lets the schedule search see whether the rewrite is active.
var vByJobIDCalls int

func vByJobID(m map[int]func() workerState) func(func(int, func() workerState) bool) {
	return func(yield func(int, func() workerState) bool) {
		vByJobIDCalls++
		ids := make([]int, 0, len(m))
		for id := range m {
			ids = append(ids, id)
		}
		sort.Ints(ids)
		for _, id := range ids {
			if !yield(id, m[id]) {
				return
			}
		}
	}
}
