package das

// Verification harness for C04 (no height is ever lost) and C13 (progress and bounds).
// It drives the REAL das.DASer through its exported API inside a testing/synctest bubble,
// one environment event at a time; every collaborator is a fake whose blocking calls return
// only when the explorer picks the answer.

import (
	"context"
	"encoding/json"
	"errors"
	"fmt"
	"os"
	"sort"
	"strconv"
	"strings"
	"sync"
	"testing"
	"testing/synctest"
	"time"

	"github.com/cometbft/cometbft/types"
	"github.com/ipfs/go-datastore"
	ds_sync "github.com/ipfs/go-datastore/sync"
	logging "github.com/ipfs/go-log/v2"

	libhead "github.com/celestiaorg/go-header"

	"github.com/celestiaorg/celestia-node/header"
	"github.com/celestiaorg/celestia-node/share"
	"github.com/celestiaorg/celestia-node/share/availability"
	"github.com/celestiaorg/celestia-node/verifx/vx"
)

// ---------------------------------------------------------------- configuration

type dasCfg struct {
	Range     uint64 `json:"range"`
	Limit     int    `json:"limit"`
	InitHead  uint64 `json:"init_head"`
	MaxHeight uint64 `json:"max_height"`
	// RetryOrder: 0 = failed heights picked ascending, 1 = descending (owns the Go map
	// iteration order in coordinatorState.retryJob)
	RetryOrder int `json:"retry_order"`
	// Answers allowed for a pending sampler call
	Answers []string `json:"answers"`
	// Events switches
	Crash bool `json:"crash"`
	// Lag: a head announcement that skips heights leaves the skipped headers missing from the
	// header store (GetByHeight answers ErrNotFound for them) until a "fill" event stores them -
	// the header feed runs ahead of the syncer
	Lag bool `json:"lag,omitempty"`
}

func (c dasCfg) String() string {
	lag := ""
	if c.Lag {
		lag = ",lag"
	}
	return fmt.Sprintf("range=%d,limit=%d,head0=%d,maxh=%d,retryorder=%d,crash=%v,ans=%s%s",
		c.Range, c.Limit, c.InitHead, c.MaxHeight, c.RetryOrder, c.Crash, strings.Join(c.Answers, "/"), lag)
}

const (
	vBgInterval    = 1000 * time.Hour
	vSampleTimeout = 1000000 * time.Hour
	vBackoffStep   = 65 * time.Minute // > the largest back-off interval (64 min)
)

// ---------------------------------------------------------------- fakes

func vHeader(h uint64) *header.ExtendedHeader {
	return &header.ExtendedHeader{
		Commit:    &types.Commit{},
		RawHeader: header.RawHeader{Height: int64(h)},
		DAH:       &share.AxisRoots{RowRoots: make([][]byte, 0)},
	}
}

type vCall struct {
	height uint64
	who    string // "<jobtype>.<from>-<to>" of the calling worker ("" if unknown)
	seq    int
	ctx    context.Context
	ans    chan error
}

type vWorld struct {
	cfg dasCfg

	mu      sync.Mutex
	pending []*vCall
	seq     int
	// ground truth
	sampled  map[uint64]bool // answered ok / outside-window at least once
	everFail map[uint64]bool
	lastFail map[uint64]time.Time // time of the last failure answer in this instance
	calls    int

	storeHead uint64
	tail      uint64
	missing   map[uint64]bool // headers at or below storeHead that are not in the store yet (cfg.Lag)
	// heights that failed at least once without a sampler call (missing header): such a failure
	// and the retries that follow can all happen inside one event while the clock advances, so
	// the per-event back-off oracle cannot time them
	instantFail map[uint64]bool

	ds     *vDatastore
	subCh  chan *header.ExtendedHeader
	lastCP string // last persisted checkpoint (JSON)
	cpErr  string // first checkpoint-coverage violation
	bgPrev uint64
	inTick bool
}

// availability
type vDA struct{ w *vWorld }

func (f vDA) SharesAvailable(ctx context.Context, h *header.ExtendedHeader) error {
	if err := ctx.Err(); err != nil {
		// a call that starts after cancellation fails at once (what every real
		// availability implementation does on its first context check)
		return err
	}
	w := f.w
	w.mu.Lock()
	c := &vCall{height: h.Height(), seq: w.seq, ctx: ctx, ans: make(chan error)}
	if j, ok := ctx.Value(vJobKey{}).(job); ok {
		c.who = fmt.Sprintf("%s.%d-%d", j.jobType, j.from, j.to)
	}
	w.seq++
	w.calls++
	w.pending = append(w.pending, c)
	w.mu.Unlock()
	return <-c.ans
}

// subscriber
type vSub struct{ w *vWorld }

func (s vSub) Subscribe() (libhead.Subscription[*header.ExtendedHeader], error) {
	return vSubscription{s.w}, nil
}
func (s vSub) SetVerifier(func(context.Context, *header.ExtendedHeader) error) error { return nil }

type vSubscription struct{ w *vWorld }

func (s vSubscription) NextHeader(ctx context.Context) (*header.ExtendedHeader, error) {
	select {
	case h := <-s.w.subCh:
		return h, nil
	case <-ctx.Done():
		return nil, ctx.Err()
	}
}
func (s vSubscription) Cancel() {}

// header store
type vStore struct{ w *vWorld }

func (s vStore) Head(context.Context, ...libhead.HeadOption[*header.ExtendedHeader]) (*header.ExtendedHeader, error) {
	return vHeader(s.w.storeHead), nil
}
func (s vStore) Tail(context.Context) (*header.ExtendedHeader, error) { return vHeader(s.w.tail), nil }
func (s vStore) GetByHeight(ctx context.Context, h uint64) (*header.ExtendedHeader, error) {
	if err := ctx.Err(); err != nil {
		return nil, err
	}
	if h < s.w.tail || h > s.w.storeHead {
		return nil, libhead.ErrNotFound
	}
	if s.w.missing[h] {
		// the worker records the height as failed without ever calling the sampler
		s.w.mu.Lock()
		s.w.everFail[h] = true
		if s.w.instantFail == nil {
			s.w.instantFail = map[uint64]bool{}
		}
		s.w.instantFail[h] = true
		s.w.mu.Unlock()
		return nil, fmt.Errorf("verif store: header %d not synced yet: %w", h, libhead.ErrNotFound)
	}
	return vHeader(h), nil
}
func (s vStore) Get(context.Context, libhead.Hash) (*header.ExtendedHeader, error) {
	panic("unused")
}
func (s vStore) GetRangeByHeight(context.Context, *header.ExtendedHeader, uint64) ([]*header.ExtendedHeader, error) {
	panic("unused")
}
func (s vStore) Height() uint64                                          { return s.w.storeHead }
func (s vStore) Has(context.Context, libhead.Hash) (bool, error)         { panic("unused") }
func (s vStore) HasAt(context.Context, uint64) bool                      { panic("unused") }
func (s vStore) Append(context.Context, ...*header.ExtendedHeader) error { panic("unused") }
func (s vStore) GetRange(context.Context, uint64, uint64) ([]*header.ExtendedHeader, error) {
	panic("unused")
}
func (s vStore) DeleteRange(context.Context, uint64, uint64) error { panic("unused") }
func (s vStore) OnDelete(func(context.Context, uint64) error)      {}

// datastore with freeze (crash) and a put hook (checkpoint coverage oracle)
type vDatastore struct {
	datastore.Datastore
	w      *vWorld
	frozen bool
}

func (d *vDatastore) Put(ctx context.Context, k datastore.Key, v []byte) error {
	if d.frozen {
		return nil // the process is dead: the write never reaches the disk
	}
	if strings.HasSuffix(k.String(), "checkpoint") {
		d.w.onCheckpoint(v)
	}
	return d.Datastore.Put(ctx, k, v)
}

// onCheckpoint evaluates the restart half of C04 at the moment a checkpoint is persisted:
// every height in [tail, cp.NetworkHead] not sampled so far must be covered by the checkpoint.
func (w *vWorld) onCheckpoint(v []byte) {
	var cp checkpoint
	if err := json.Unmarshal(v, &cp); err != nil {
		if w.cpErr == "" {
			w.cpErr = "C04/checkpoint-unreadable: " + err.Error()
		}
		return
	}
	w.mu.Lock()
	defer w.mu.Unlock()
	// canonical form: the order of workers in the persisted JSON follows Go map iteration of
	// the in-progress table and only decides the (unobservable) job ids after resumption
	cc := cp
	cc.Workers = append([]workerCheckpoint(nil), cp.Workers...)
	sort.Slice(cc.Workers, func(i, j int) bool {
		if cc.Workers[i].From != cc.Workers[j].From {
			return cc.Workers[i].From < cc.Workers[j].From
		}
		return cc.Workers[i].JobType < cc.Workers[j].JobType
	})
	cb, _ := json.Marshal(cc)
	w.lastCP = string(cb)
	if w.inTick && cp.SampleFrom > w.bgPrev {
		w.bgPrev = cp.SampleFrom
	}
	if w.cpErr != "" {
		return
	}
	for h := w.tail; h <= cp.NetworkHead; h++ {
		if w.sampled[h] {
			continue
		}
		if h >= cp.SampleFrom {
			continue
		}
		if _, ok := cp.Failed[h]; ok {
			continue
		}
		cov := false
		for _, wk := range cp.Workers {
			if wk.From <= h && h <= wk.To {
				cov = true
			}
		}
		if cov {
			continue
		}
		w.cpErr = fmt.Sprintf("C04/height-lost/checkpoint: height %d is not sampled and not covered by persisted checkpoint %s", h, string(v))
		return
	}
}

// ---------------------------------------------------------------- the system

type phase int

const (
	phRunning phase = iota
	phStopping
	phStopped
)

// vProp selects which property's oracles are evaluated ("C04" or "C13"): a violation of the
// sibling property must neither be reported nor prune the exploration of this one.
var vProp = "C04"

type dasSys struct {
	t   *testing.T
	cfg dasCfg
	w   *vWorld
	d   *DASer

	ph       phase
	stopDone chan error
	crashed  bool

	lastCount      map[uint64]int
	seenJobs       map[int]bool // job ids already judged by the back-off oracle (this instance)
	reportedFailAt map[uint64]time.Time
	failCountSeen  map[uint64]int
	failSeenInit   bool
	err            error // first violation observed (sticky)
	hist           []string
}

func newDasSys(t *testing.T, cfg dasCfg) *dasSys {
	w := &vWorld{cfg: cfg, sampled: map[uint64]bool{}, everFail: map[uint64]bool{}, lastFail: map[uint64]time.Time{},
		storeHead: cfg.InitHead, tail: 1, subCh: make(chan *header.ExtendedHeader)}
	w.ds = &vDatastore{Datastore: ds_sync.MutexWrap(datastore.NewMapDatastore()), w: w}
	s := &dasSys{t: t, cfg: cfg, w: w, lastCount: map[uint64]int{}, ph: phStopped}
	s.start()
	return s
}

func (s *dasSys) fail(format string, a ...any) {
	if s.err == nil {
		s.err = fmt.Errorf(format, a...)
	}
}

func (s *dasSys) start() {
	s.seenJobs = map[int]bool{}
	s.reportedFailAt = map[uint64]time.Time{}
	s.failCountSeen = map[uint64]int{}
	s.failSeenInit = false
	s.w.ds.frozen = false
	s.w.lastFail = map[uint64]time.Time{}
	s.w.bgPrev = 0
	d, err := NewDASer(vDA{s.w}, vSub{s.w}, vStore{s.w}, s.w.ds,
		WithSamplingRange(s.cfg.Range), WithConcurrencyLimit(s.cfg.Limit),
		WithBackgroundStoreInterval(vBgInterval), WithSampleTimeout(vSampleTimeout))
	if err != nil {
		s.fail("harness: NewDASer: %v", err)
		return
	}
	s.d = d
	if err := d.Start(context.Background()); err != nil {
		s.fail("harness: Start: %v", err)
		return
	}
	s.ph = phRunning
	synctest.Wait()
}

func (s *dasSys) pendingSorted() []*vCall {
	s.w.mu.Lock()
	defer s.w.mu.Unlock()
	p := append([]*vCall(nil), s.w.pending...)
	sort.SliceStable(p, func(i, j int) bool {
		if p[i].height != p[j].height {
			return p[i].height < p[j].height
		}
		if p[i].who != p[j].who {
			return p[i].who < p[j].who
		}
		return p[i].seq < p[j].seq
	})
	return p
}

// pending call k among calls for height h (arrival order)
func (s *dasSys) findCall(h uint64, k int) *vCall {
	n := 0
	for _, c := range s.pendingSorted() {
		if c.height == h {
			if n == k {
				return c
			}
			n++
		}
	}
	return nil
}

func (s *dasSys) Enabled() []string {
	if s.err != nil {
		return nil
	}
	var ev []string
	// answers
	perH := map[uint64]int{}
	for _, c := range s.pendingSorted() {
		k := perH[c.height]
		perH[c.height]++
		if k > 0 {
			// two pending calls for the same height are symmetric for every oracle here only if
			// they come from the same job type; keep both addressable.
		}
		id := fmt.Sprintf("%d.%d", c.height, k)
		if c.who != "" {
			id += "/" + c.who
		}
		if c.ctx.Err() != nil {
			ev = append(ev, "ans:"+id+":ctx")
			for _, a := range s.cfg.Answers {
				if a == "ok" || a == "fail" {
					ev = append(ev, "ans:"+id+":"+a)
				}
			}
			continue
		}
		for _, a := range s.cfg.Answers {
			ev = append(ev, "ans:"+id+":"+a)
		}
	}
	switch s.ph {
	case phRunning:
		nh := s.netHead()
		for _, h := range []uint64{nh + 1, nh + 2, nh, nh - 1} {
			if h >= 1 && h <= s.cfg.MaxHeight {
				ev = append(ev, "head:"+strconv.FormatUint(h, 10))
			}
		}
		ev = append(ev, "tick")
		if len(s.w.missing) > 0 {
			ev = append(ev, "fill")
		}
		if s.anyBackoffPending() {
			ev = append(ev, "backoff")
		}
		ev = append(ev, "stop")
		if s.cfg.Crash {
			ev = append(ev, "crash")
		}
	case phStopped:
		ev = append(ev, "start")
		if len(s.w.missing) > 0 {
			ev = append(ev, "fill")
		}
		if s.w.storeHead < s.cfg.MaxHeight {
			ev = append(ev, "grow")
		}
		// the header store prunes its oldest header while the DASer is down (Start clamps the
		// checkpoint, its failed heights and its workers to the new tail)
		if s.w.tail < s.w.storeHead && s.w.tail < 3 {
			ev = append(ev, "tailadv")
		}
	}
	return ev
}

func (s *dasSys) netHead() uint64 { return s.d.sampler.state.networkHead }

func (s *dasSys) anyBackoffPending() bool {
	for _, a := range s.d.sampler.state.failed {
		if !a.canRetry() {
			return true
		}
	}
	return false
}

func (s *dasSys) answer(c *vCall, a string) {
	s.w.mu.Lock()
	for i, p := range s.w.pending {
		if p == c {
			s.w.pending = append(s.w.pending[:i:i], s.w.pending[i+1:]...)
			break
		}
	}
	var err error
	switch a {
	case "ok":
		s.w.sampled[c.height] = true
		delete(s.w.lastFail, c.height)
	case "out":
		s.w.sampled[c.height] = true
		delete(s.w.lastFail, c.height)
		err = availability.ErrOutsideSamplingWindow
	case "fail":
		err = errors.New("verif: sampling failed")
		s.w.everFail[c.height] = true
		s.w.lastFail[c.height] = time.Now()
	case "canc":
		// an error that merely looks like cancellation while the DASer keeps running
		err = fmt.Errorf("verif: getter gave up: %w", context.Canceled)
		s.w.everFail[c.height] = true
	case "ctx":
		err = c.ctx.Err()
	}
	s.w.mu.Unlock()
	c.ans <- err
}

func (s *dasSys) Apply(ev string) error {
	s.hist = append(s.hist, ev)
	parts := strings.Split(ev, ":")
	switch parts[0] {
	case "ans":
		hk := strings.Split(strings.Split(parts[1], "/")[0], ".")
		h, _ := strconv.ParseUint(hk[0], 10, 64)
		k, _ := strconv.Atoi(hk[1])
		c := s.findCall(h, k)
		if c == nil {
			return fmt.Errorf("harness: no pending call %s", parts[1])
		}
		s.answer(c, parts[2])
	case "head":
		h, _ := strconv.ParseUint(parts[1], 10, 64)
		if h > s.w.storeHead {
			if s.cfg.Lag {
				// the announced header is stored, the skipped ones are not yet
				for g := s.w.storeHead + 1; g < h; g++ {
					if s.w.missing == nil {
						s.w.missing = map[uint64]bool{}
					}
					s.w.missing[g] = true
				}
			}
			s.w.storeHead = h // the syncer stores a header before announcing it
		}
		s.w.subCh <- vHeader(h)
	case "fill":
		for _, g := range vx.SortedKeys(s.w.missing) {
			delete(s.w.missing, g)
			break
		}
	case "tick":
		s.w.inTick = true
		time.Sleep(vBgInterval + time.Second)
		synctest.Wait()
		s.w.inTick = false
	case "backoff":
		time.Sleep(vBackoffStep)
	case "stop":
		s.beginStop()
	case "crash":
		s.w.ds.frozen = true
		s.crashed = true
		s.beginStop()
		// a crash is not interleaved with anything: the process is gone
		s.finishStop()
	case "start":
		s.crashed = false
		s.lastCount = map[uint64]int{}
		s.start()
	case "grow":
		s.w.storeHead++
	case "tailadv":
		s.w.tail++
	default:
		return fmt.Errorf("harness: unknown event %q", ev)
	}
	synctest.Wait()
	if s.ph == phStopping {
		select {
		case err := <-s.stopDone:
			if err != nil {
				s.fail("C13/stop-failed: Stop returned %v", err)
			}
			s.ph = phStopped
		default:
		}
	}
	s.observe()
	return s.err
}

func (s *dasSys) beginStop() {
	s.stopDone = make(chan error, 1)
	d := s.d
	go func() { s.stopDone <- d.Stop(context.Background()) }()
	s.ph = phStopping
	synctest.Wait()
}

// finishStop answers every pending call with its context error until Stop returns.
func (s *dasSys) finishStop() {
	for i := 0; i < 1000 && s.ph == phStopping; i++ {
		synctest.Wait()
		select {
		case err := <-s.stopDone:
			if err != nil {
				s.fail("C13/stop-failed: Stop returned %v", err)
			}
			s.ph = phStopped
			return
		default:
		}
		p := s.pendingSorted()
		if len(p) == 0 {
			s.fail("C13/stop-hangs: Stop does not return although no sampler call is pending")
			return
		}
		s.answer(p[0], "ctx")
	}
}

// ---------------------------------------------------------------- oracles

type obsWorker struct {
	Type     string
	From, To uint64
	Curr     uint64
}

func (s *dasSys) stats() (SamplingStats, bool) {
	ctx, cancel := context.WithCancel(context.Background())
	defer cancel()
	type r struct {
		st  SamplingStats
		err error
	}
	ch := make(chan r, 1)
	go func() {
		st, err := s.d.SamplingStats(ctx)
		ch <- r{st, err}
	}()
	synctest.Wait()
	select {
	case x := <-ch:
		if x.err != nil {
			s.fail("C13/stats-error: %v", x.err)
			return SamplingStats{}, false
		}
		return x.st, true
	default:
		cancel()
		synctest.Wait()
		<-ch
		s.fail("C13/stats-hangs: SamplingStats does not return in a quiescent running state")
		return SamplingStats{}, false
	}
}

// observe evaluates every state oracle; it is called after every event (also during replay,
// so history-dependent trackers such as retry counts are maintained).
func (s *dasSys) observe() {
	if s.err != nil {
		return
	}
	if s.w.cpErr != "" && vProp == "C04" {
		s.fail("%s", s.w.cpErr)
		return
	}
	if s.ph != phRunning {
		return
	}
	// A statistics request makes the coordinator loop run once more after the snapshot was
	// taken (it may start a retry job whose back-off has expired meanwhile). Kick first and
	// judge the second snapshot, which is then stable.
	if _, ok := s.stats(); !ok {
		return
	}
	st, ok := s.stats()
	if !ok {
		return
	}
	w := s.w
	w.mu.Lock()
	npend := len(w.pending)
	w.mu.Unlock()

	if vProp == "C04" {
		// ---- C04: coverage of every height in [tail, networkHead]
		if st.NetworkHead != w.storeHead {
			s.fail("C04/head-not-learned: stats.NetworkHead=%d but newest announced head is %d", st.NetworkHead, w.storeHead)
			return
		}
		for h := w.tail; h <= st.NetworkHead; h++ {
			if w.sampled[h] {
				continue
			}
			if h > st.CatchupHead {
				continue // still queued for catch-up
			}
			if _, ok := st.Failed[h]; ok {
				continue
			}
			cov := ""
			for _, wk := range st.Workers {
				if wk.Curr <= h && h <= wk.To && wk.From <= h {
					cov = string(wk.JobType)
				}
			}
			if cov != "" {
				continue
			}
			how := "running"
			if len(s.hist) > 0 {
				for _, e := range s.hist {
					if e == "start" {
						how = "after-restart"
					}
				}
			}
			s.fail("C04/height-lost/%s: height %d is not sampled, not queued (catchup head %d), not in a worker, not failed; stats=%s",
				how, h, st.CatchupHead, statsStr(st))
			return
		}
		for h := w.tail; h <= st.SampledChainHead && h <= st.NetworkHead; h++ {
			if !w.sampled[h] {
				s.fail("C04/sampled-head-too-high: SampledChainHead=%d but height %d was never sampled; stats=%s", st.SampledChainHead, h, statsStr(st))
				return
			}
		}

	}
	// statistics agree with what was actually sampled (C13's reading of the same observable)
	if vProp == "C13" {
		for h := w.tail; h <= st.SampledChainHead && h <= st.NetworkHead; h++ {
			if !w.sampled[h] {
				s.fail("C13/stats-sampled-head: SampledChainHead=%d but height %d was never sampled; stats=%s", st.SampledChainHead, h, statsStr(st))
				return
			}
		}
	} else {
		return
	}

	// ---- C13: bounds
	nonRecent := 0
	for _, wk := range st.Workers {
		if wk.JobType != recentJob {
			nonRecent++
		}
	}
	if len(st.Workers) > 2*s.cfg.Limit {
		s.fail("C13/too-many-workers: %d workers > 2*limit(%d); stats=%s", len(st.Workers), s.cfg.Limit, statsStr(st))
		return
	}
	// catch-up and retry workers are bounded by the limit, except the ones resumed from a
	// checkpoint (at most limit as well, since a checkpoint only holds workers that ran under
	// the same limit); resumed+new may transiently exceed only if the limit changed, which it
	// does not here.
	if nonRecent > s.cfg.Limit {
		s.fail("C13/too-many-catchup-workers: %d catch-up/retry workers > limit %d; stats=%s", nonRecent, s.cfg.Limit, statsStr(st))
		return
	}
	if st.Concurrency != len(st.Workers) {
		s.fail("C13/stats-concurrency: Concurrency=%d but %d workers listed", st.Concurrency, len(st.Workers))
		return
	}
	// every running job is really sampling (it has a pending sampler call) - a job that ended
	// must have reported
	if len(st.Workers) != npend {
		s.fail("C13/worker-vanished: %d workers listed as running but %d sampler calls pending; stats=%s", len(st.Workers), npend, statsStr(st))
		return
	}
	// catch-up done exactly when nothing queued, in flight or failed
	want := len(st.Workers) == 0 && len(st.Failed) == 0 && st.CatchupHead >= st.NetworkHead
	if st.CatchUpDone != want {
		s.fail("C13/catchup-done-mismatch: CatchUpDone=%v but queued/inflight/failed says %v; stats=%s", st.CatchUpDone, want, statsStr(st))
		return
	}
	if got := s.waitCatchUpReturns(); got != want {
		s.fail("C13/waitcatchup-mismatch: WaitCatchUp returns=%v, expected %v; stats=%s", got, want, statsStr(st))
		return
	}
	// failed map agrees with ground truth, retry counts never decrease
	for h, c := range st.Failed {
		if !w.everFail[h] {
			s.fail("C13/stats-failed-phantom: height %d reported failed but the sampler never failed it", h)
			return
		}
		_ = c
	}
	// the back-off attempt count of a height (coordinator's retryAttempt.count, in failed or
	// inRetry) never decreases while the height stays failed
	cs := &s.d.sampler.state
	cur := map[uint64]int{}
	for h, a := range cs.failed {
		cur[h] = a.count
	}
	for h, a := range cs.inRetry {
		if a.count > cur[h] {
			cur[h] = a.count
		}
	}
	for h, c := range cur {
		if prev, ok := s.lastCount[h]; ok && c < prev {
			s.fail("C13/retry-count-decreased: height %d back-off attempt count went %d -> %d", h, prev, c)
			return
		}
	}
	s.lastCount = cur
	// a retry job runs only after the back-off of its height has elapsed (unless the height
	// was resumed from a checkpoint, which deliberately retries at once)
	// when did the COORDINATOR learn about a failure of h (a result carrying it was handled)?
	// A failure inside a worker that has not reported yet does not start any back-off.
	for h, a := range cs.failed {
		if prev, ok := s.failCountSeen[h]; !ok || a.count > prev {
			if ok || s.failSeenInit {
				s.reportedFailAt[h] = time.Now()
			}
		}
	}
	s.failCountSeen = map[uint64]int{}
	for h, a := range cs.failed {
		s.failCountSeen[h] = a.count
	}
	s.failSeenInit = true
	for id, get := range cs.inProgress {
		if s.seenJobs[id] {
			continue
		}
		s.seenJobs[id] = true
		ws := get()
		if ws.jobType != retryJob {
			continue
		}
		h := ws.from
		a := cs.inRetry[h]
		s.w.mu.Lock()
		instant := s.w.instantFail[h]
		s.w.mu.Unlock()
		if instant {
			continue // several fail/retry cycles of h may lie inside the last event
		}
		t, ok := s.reportedFailAt[h]
		if !ok || a.count < 1 {
			continue // resumed from a checkpoint: retried at once by design
		}
		iv := cs.retryStrategy.retryIntervals
		need := iv[min(a.count, len(iv))-1]
		if time.Since(t) < need {
			s.fail("C13/retry-before-backoff: retry job for height %d (attempt %d) started %v after the coordinator recorded its failure, back-off is %v", h, a.count, time.Since(t), need)
			return
		}
	}
}

func (s *dasSys) waitCatchUpReturns() bool {
	ctx, cancel := context.WithCancel(context.Background())
	ch := make(chan error, 1)
	go func() { ch <- s.d.WaitCatchUp(ctx) }()
	synctest.Wait()
	select {
	case err := <-ch:
		cancel()
		return err == nil
	default:
		cancel()
		synctest.Wait()
		<-ch
		return false
	}
}

func statsStr(st SamplingStats) string {
	sort.Slice(st.Workers, func(i, j int) bool {
		a, b := st.Workers[i], st.Workers[j]
		if a.From != b.From {
			return a.From < b.From
		}
		return a.JobType < b.JobType
	})
	b, _ := json.Marshal(st)
	return string(b)
}

func (s *dasSys) Check() error { return s.err }

func (s *dasSys) Fingerprint() string {
	var b strings.Builder
	w := s.w
	fmt.Fprintf(&b, "ph=%d crashed=%v storeHead=%d tail=%d cp=%s bgPrev=%d missing=%v|", s.ph, s.crashed, w.storeHead, w.tail, w.lastCP, w.bgPrev, vx.SortedKeys(w.missing))
	b.WriteString("sampled=")
	for _, h := range vx.SortedKeys(w.sampled) {
		fmt.Fprintf(&b, "%d,", h)
	}
	b.WriteString("|everFail=")
	for _, h := range vx.SortedKeys(w.everFail) {
		fmt.Fprintf(&b, "%d,", h)
	}
	b.WriteString("|pend=")
	for _, c := range s.pendingSorted() {
		fmt.Fprintf(&b, "%d/%s/%v,", c.height, c.who, c.ctx.Err() != nil)
	}
	if s.ph != phStopped {
		cs := &s.d.sampler.state
		fmt.Fprintf(&b, "|next=%d head=%d done=%v|failed=", cs.next, cs.networkHead, cs.catchUpDone.Load())
		for _, h := range vx.SortedKeys(cs.failed) {
			fmt.Fprintf(&b, "%d:%d:%v,", h, cs.failed[h].count, cs.failed[h].canRetry())
		}
		b.WriteString("|inRetry=")
		for _, h := range vx.SortedKeys(cs.inRetry) {
			fmt.Fprintf(&b, "%d:%d,", h, cs.inRetry[h].count)
		}
		var ws []string
		for _, get := range cs.inProgress {
			st := get()
			fk := vx.SortedKeys(st.failed)
			ws = append(ws, fmt.Sprintf("%s:%d-%d@%d%v", st.jobType, st.from, st.to, st.curr, fk))
		}
		sort.Strings(ws)
		fmt.Fprintf(&b, "|workers=%s", strings.Join(ws, ";"))
		b.WriteString("|lastFail=")
		for _, h := range vx.SortedKeys(w.lastFail) {
			fmt.Fprintf(&b, "%d:%v,", h, time.Since(w.lastFail[h]) >= vBackoffStep-time.Minute)
		}
		b.WriteString("|lastCount=")
		for _, h := range vx.SortedKeys(s.lastCount) {
			fmt.Fprintf(&b, "%d:%d,", h, s.lastCount[h])
		}
	}
	return b.String()
}

// Close shuts the instance down completely so that the bubble can end.
func (s *dasSys) Close() {
	s.w.ds.frozen = true // clean-up writes are not part of any explored behaviour
	saved := s.err
	if s.ph == phRunning {
		s.beginStop()
	}
	if s.ph == phStopping {
		s.finishStop()
	}
	// release anything still blocked (only possible after a harness-detected hang)
	for _, c := range s.pendingSorted() {
		s.answer(c, "ctx")
	}
	synctest.Wait()
	s.err = saved
}

// drain: bounded liveness. From the given state, let sampling succeed from now on (every
// pending call answered ok, every back-off allowed to expire, the coordinator kicked by a
// statistics request); the DASer must reach CatchUpDone with every height of [tail, head]
// sampled within a bounded number of rounds.
func (s *dasSys) drain(hist []string) error {
	if s.err != nil || vProp != "C13" {
		return nil
	}
	rounds := 6*int(s.cfg.MaxHeight) + 8*s.cfg.Limit + 12
	// fair continuation: the syncer backfills every header that is still missing
	s.w.missing = nil
	for i := 0; i < rounds; i++ {
		switch s.ph {
		case phStopping:
			s.finishStop()
			continue
		case phStopped:
			s.crashed = false
			s.lastCount = map[uint64]int{}
			s.start()
			s.observe()
			if s.err != nil {
				return s.err
			}
			continue
		}
		p := s.pendingSorted()
		if len(p) > 0 {
			a := "ok"
			if p[0].ctx.Err() != nil {
				a = "ctx"
			}
			s.answer(p[0], a)
			synctest.Wait()
			if os.Getenv("VERIF_REPLAY") != "" {
				fmt.Printf("REPLAY-DRAIN ans %d %s -> %s\n", p[0].height, a, s.Fingerprint())
			}
			s.observe()
			if s.err != nil {
				return s.err
			}
			continue
		}
		st, ok := s.stats()
		if !ok {
			return s.err
		}
		if st.CatchUpDone {
			for h := s.w.tail; h <= st.NetworkHead; h++ {
				if !s.w.sampled[h] {
					return fmt.Errorf("C13/done-but-unsampled: CatchUpDone reported but height %d was never sampled; stats=%s", h, statsStr(st))
				}
			}
			return nil
		}
		// nothing pending and not done: something waits for its back-off
		time.Sleep(vBackoffStep)
		synctest.Wait()
		s.observe() // the statistics request makes the coordinator loop run again
		if s.err != nil {
			return s.err
		}
	}
	st, _ := s.stats()
	return fmt.Errorf("C13/no-progress: not caught up after %d rounds of successful sampling; stats=%s pending=%d", rounds, statsStr(st), len(s.pendingSorted()))
}

// ---------------------------------------------------------------- driver

func vSig(err error) string {
	msg := err.Error()
	if i := strings.Index(msg, ":"); i > 0 {
		return msg[:i]
	}
	return msg
}

func runDasCheck(t *testing.T, prop string) {
	vProp = prop
	logging.SetAllLoggers(logging.LevelFatal)
	rep := vx.NewReport(prop, "model_checking")
	rep.Rule = "explicit-state BFS over event histories of the real das.DASer (events: head announcement h+1/h+2/dup/stale, " +
		"per-call sampler answer ok/fail/outside-window/cancel-looking/ctx-error, background-store tick, back-off expiry, stop, crash, start, " +
		"header-store growth and tail advance while stopped); a state is non-trivial and distinct when its canonical fingerprint (coordinator cursor/head/failed/inRetry/" +
		"workers, pending calls, sampled set, persisted checkpoint, phase) was not seen before"
	rep.Assumptions = []string{
		"sampler calls started with an already cancelled context fail at once with ctx.Err()",
		"header store returns headers immediately; the syncer stores a header before announcing it",
		"Go map iteration in retryJob is explored for ascending and descending order only",
		"bounded liveness is checked for the fair continuation 'every further sample succeeds'",
	}

	if rp := os.Getenv("VERIF_REPLAY"); rp != "" {
		replayDas(t, rep, rp, prop)
		return
	}

	type run struct {
		cfg   dasCfg
		depth int
	}
	ans := []string{"ok", "fail", "out", "canc"}
	var runs []run
	if rep.Tier == "quick" {
		runs = []run{
			{dasCfg{Range: 2, Limit: 1, InitHead: 2, MaxHeight: 4, Answers: ans, Crash: true}, 7},
			{dasCfg{Range: 1, Limit: 2, InitHead: 2, MaxHeight: 4, Answers: ans, Crash: true, RetryOrder: 1}, 6},
			{dasCfg{Range: 3, Limit: 1, InitHead: 3, MaxHeight: 5, Answers: []string{"ok", "fail"}, Crash: true}, 7},
			{dasCfg{Range: 2, Limit: 1, InitHead: 1, MaxHeight: 4, Answers: []string{"ok", "fail"}, Crash: true, Lag: true}, 6},
		}
	} else {
		// header-store lag in the thorough tier only for C04 (the height-loss oracle it was added for);
		// C13's timing oracles are decided with it in the quick configuration above
		for _, rg := range []uint64{1, 2, 3} {
			for _, lim := range []int{1, 2} {
				for _, ih := range []uint64{1, 2, 3} {
					for _, ro := range []int{0, 1} {
						runs = append(runs, run{dasCfg{Range: rg, Limit: lim, InitHead: ih, MaxHeight: ih + 3, Answers: ans, Crash: true, RetryOrder: ro, Lag: ro == 1 && ih < 3 && prop == "C04"}, 9})
					}
				}
			}
		}
	}
	deadline := rep.Deadline(150*time.Second, 40*time.Minute)
	exhaustive := true
	var mu sync.Mutex
	allEvents := map[string]int64{}
	for i, r := range runs {
		cfg := r.cfg
		vRetryOrder = cfg.RetryOrder
		// the per-run share of the budget
		left := time.Until(deadline)
		if left <= 0 {
			exhaustive = false
			rep.Set(fmt.Sprintf("run_%02d", i), map[string]any{"cfg": cfg.String(), "skipped": "budget exhausted"})
			continue
		}
		runDeadline := time.Now().Add(left / time.Duration(len(runs)-i))
		newSys := func() vx.Sys { return newDasSys(t, cfg) }
		st := vx.BFS(vx.BFSOpts{
			MaxDepth: r.depth,
			Deadline: runDeadline,
			Workers:  vx.Workers(),
			RunInstance: func(f func()) {
				synctest.Test(t, func(*testing.T) { f() })
			},
			Drain: func(s vx.Sys, hist []string) error { return s.(*dasSys).drain(hist) },
		}, newSys, func(hist []string, err error) {
			sig := vSig(err)
			if !strings.HasPrefix(sig, prop+"/") {
				if strings.HasPrefix(sig, "harness") || strings.HasPrefix(sig, "DIVERGENCE") {
					rep.Infra(fmt.Sprintf("%v hist=%v cfg=%s", err, hist, cfg))
				}
				return // belongs to the sibling property's check
			}
			mu.Lock()
			defer mu.Unlock()
			rep.Violation(sig, err.Error(), map[string]any{"cfg": cfg, "history": hist})
		})
		if st.Capped != "" {
			exhaustive = false
		}
		rep.Count(st.Replays, int64(st.States), int64(st.States), st.Transitions)
		for k, v := range st.EventCounts {
			allEvents[k] += v
		}
		rep.Set(fmt.Sprintf("run_%02d", i), map[string]any{
			"cfg": cfg.String(), "states": st.States, "transitions": st.Transitions, "depth_completed": st.DepthDone,
			"depth_bound": r.depth, "frontier_emptied": st.Complete, "capped": st.Capped, "states_per_depth": st.PerDepth,
			"events_applied": st.EventsApplied, "bounded_liveness_drains": map[bool]int{true: st.States, false: 0}[prop == "C13"],
		})
		for _, h := range st.SampleHist {
			if len(h) >= 4 {
				rep.AddSample(map[string]any{"cfg": cfg.String(), "history": h})
				break
			}
		}
	}
	rep.Set("event_class_counts", allEvents)
	rep.Set("explanation", "exhaustive within the stated depth bound per configuration unless 'capped' is set for a run")
	// SC part: statistics / checkpoint requests overlapping running workers (das_sc_test.go)
	// its budget starts when the event search has ended (it must not be starved by it)
	scBudget := 90 * time.Second
	if rep.Tier == "thorough" {
		scBudget = 15 * time.Minute
	}
	if !dasSC(t, rep, prop, time.Now().Add(scBudget)) {
		exhaustive = false
	}
	rep.SetExhaustive(exhaustive)
	if rep.Finish() > 0 {
		t.Fail()
	}
}

func replayDas(t *testing.T, rep *vx.Report, path, prop string) {
	b, err := os.ReadFile(path)
	if err != nil {
		t.Fatalf("replay: %v", err)
	}
	var doc struct {
		Replay struct {
			Cfg      dasCfg      `json:"cfg"`
			History  []string    `json:"history"`
			Part     string      `json:"part"`
			Scenario dscScenario `json:"scenario"`
			Choices  []int       `json:"choices"`
		} `json:"replay"`
	}
	if err := json.Unmarshal(b, &doc); err != nil {
		t.Fatalf("replay: %v", err)
	}
	if doc.Replay.Part == "das-sc" {
		var verr error
		for i := 0; i < 5; i++ {
			e := vx.NewExec(doc.Replay.Choices)
			err := dscRun(t, doc.Replay.Scenario, e, prop)
			if e.Diverged != "" {
				t.Fatalf("NONDETERMINISM: %s", e.Diverged)
			}
			if i == 0 {
				for _, l := range e.Trace() {
					fmt.Printf("REPLAY-STEP %s\n", l)
				}
			} else if (err == nil) != (verr == nil) {
				t.Fatalf("NONDETERMINISM: replay %d gave %v, earlier %v", i, err, verr)
			}
			verr = err
		}
		rep.Count(5, 2, 1, int64(len(doc.Replay.Choices)))
		if verr != nil {
			fmt.Printf("REPLAY-RESULT violation reproduced 5/5: %v\n", verr)
			rep.Violation(vSig(verr), verr.Error(), doc.Replay)
		} else {
			fmt.Println("REPLAY-RESULT no violation")
		}
		rep.Finish()
		return
	}
	vProp = prop
	vRetryOrder = doc.Replay.Cfg.RetryOrder
	var verr error
	for i := 0; i < 5; i++ {
		var e error
		synctest.Test(t, func(*testing.T) {
			s := newDasSys(t, doc.Replay.Cfg)
			defer s.Close()
			for _, ev := range doc.Replay.History {
				e = s.Apply(ev)
				if i == 0 {
					fmt.Printf("REPLAY-STEP %s -> %s\n", ev, s.Fingerprint())
				}
				if e != nil {
					return
				}
			}
			e = s.drain(doc.Replay.History)
		})
		if i > 0 && (e == nil) != (verr == nil) {
			t.Fatalf("NONDETERMINISM: replay %d gave %v, earlier %v", i, e, verr)
		}
		verr = e
	}
	rep.Count(5, 2, 1, int64(len(doc.Replay.History)))
	rep.AddSample(doc.Replay.History)
	if verr != nil {
		fmt.Printf("REPLAY-RESULT violation reproduced 5/5: %v\n", verr)
		rep.Violation(vSig(verr), verr.Error(), doc.Replay)
	} else {
		fmt.Println("REPLAY-RESULT no violation")
	}
	rep.Finish()
}

func TestVerifC04(t *testing.T) { runDasCheck(t, "C04") }
func TestVerifC13(t *testing.T) { runDasCheck(t, "C13") }
