package store

// C05 — Every way of reading a stored block returns exactly the block that was stored.
//
// Bounded-exhaustive differential check on the real implementation (DESIGN.md §4 C05, §3.6): every square
// of the stated layout sets x every representation of the stored block (accessor implementations x wrapper
// layers, and the Store / CachedStore / Getter over real directories through put, reopen, serving cache and
// parity-file pruning) x every read operation with every argument, against the rsmt2d reference square.

import (
	"encoding/hex"
	"encoding/json"
	"fmt"
	"os"
	"runtime/debug"
	"sort"
	"strings"
	"sync"
	"sync/atomic"
	"syscall"
	"testing"
	"time"

	logging "github.com/ipfs/go-log/v2"

	"github.com/celestiaorg/celestia-node/share"
	"github.com/celestiaorg/celestia-node/verifx/sq"
	"github.com/celestiaorg/celestia-node/verifx/vx"
)

type c05Group struct {
	Name    string
	Layouts []sq.Layout
}

type c05GroupResult struct {
	Name      string  `json:"group"`
	Layouts   int     `json:"layouts"`
	Completed int     `json:"layouts_completed"`
	Calls     int64   `json:"operation_calls"`
	WallS     float64 `json:"wall_s"`
}

// c05SampleSink keeps a few written-out cases for the evidence file (one per distinct op/outcome class).
type c05SampleSink struct {
	mu   sync.Mutex
	seen map[string]bool
	out  []c05Case
}

func (s *c05SampleSink) offer(cs c05Case) {
	if len(s.out) >= 12 || cs.Op == "size" || cs.Op == "datahash" || cs.Op == "axisroots" {
		return
	}
	fam := cs.Rep
	if i := strings.IndexByte(fam, ':'); i > 0 {
		fam = fam[:i]
	}
	oc := cs.Outcome
	if i := strings.IndexByte(oc, ':'); i > 0 {
		oc = oc[:i]
	}
	k := fam + "/" + cs.Op + "/" + oc
	s.mu.Lock()
	defer s.mu.Unlock()
	if s.seen[k] || s.seen["n/"+fam+"/"+cs.Op] || len(s.out) >= 12 {
		return
	}
	n := 0
	for _, o := range s.out {
		if strings.HasPrefix(o.Rep, fam+":") {
			n++
		}
	}
	if n >= 6 {
		return
	}
	s.seen[k] = true
	s.seen["n/"+fam+"/"+cs.Op] = true
	s.out = append(s.out, cs)
}

func c05TailSweep(w int) []sq.Layout {
	var out []sq.Layout
	n := w * w
	for k := 0; k <= n; k++ {
		switch {
		case k == 0:
			out = append(out, sq.MustParse(fmt.Sprintf("w%d:A%d", w, n))...)
		case k == n:
			out = append(out, sq.MustParse(fmt.Sprintf("w%d:TAIL%d", w, n))...)
		default:
			out = append(out, sq.MustParse(fmt.Sprintf("w%d:A%d,TAIL%d", w, n-k, k))...)
		}
	}
	return out
}

func c05Dedup(ls []sq.Layout) []sq.Layout {
	seen := map[string]bool{}
	var out []sq.Layout
	for _, l := range ls {
		if k := l.String(); !seen[k] {
			seen[k] = true
			out = append(out, l)
		}
	}
	return out
}

// c05W4Quick is the structured width-4 list of the quick tier (the thorough tier runs ALL layouts with up to
// 3 namespaces): every tail-padding amount behind a reserved and behind a user namespace, every position of a
// namespace boundary for four namespace pairs, and squares with many namespaces.
func c05W4Quick() []sq.Layout {
	var ss []string
	for _, x := range []string{"TX", "A"} {
		for k := 0; k <= 16; k++ {
			switch k {
			case 0:
				ss = append(ss, fmt.Sprintf("w4:%s16", x))
			case 16:
				ss = append(ss, "w4:TAIL16")
			default:
				ss = append(ss, fmt.Sprintf("w4:%s%d,TAIL%d", x, 16-k, k))
			}
		}
	}
	for _, p := range [][2]string{{"TX", "A"}, {"A", "B"}, {"PFB", "PRP"}, {"PRP", "C"}} {
		for i := 1; i <= 15; i++ {
			ss = append(ss, fmt.Sprintf("w4:%s%d,%s%d", p[0], i, p[1], 16-i))
		}
	}
	ss = append(ss,
		"w4:TX1,PFB1,PRP2,A3,B5,TAIL4", "w4:TX2,PFB2,A4,B4,C4", "w4:TX1,A1,B1,C1,TAIL12", "w4:PFB3,PRP1,A4,B3,C4,TAIL1",
		"w4:TX1,PFB1,PRP1,A1,B1,C1,TAIL10", "w4:A5,B6,C5", "w4:TX4,A4,B4,TAIL4", "w4:A3p1,B6p2,C4p3,TAIL3", "w4:TX3,A2,C10,TAIL1",
		"w4:PRP4,B7,TAIL5", "w4:TX1,PFB1,A13,TAIL1", "w4:A7,B1,C1,TAIL7")
	return c05Dedup(sq.MustParse(ss...))
}

func c05Groups(tier string) (groups []c05Group, chunks []int) {
	chunks = []int{0, -1, -7, 511, 512, 513, 4096} // negative: only for squares up to width 2
	groups = []c05Group{
		{Name: "w1-all-layouts", Layouts: sq.Layouts(1, 0, nil)},
		{Name: "w2-all-layouts", Layouts: sq.Layouts(2, 0, nil)},
		{Name: "w4-tail-sweeps-boundary-sweeps-and-mixed", Layouts: c05W4Quick()},
	}
	if tier == "thorough" {
		chunks = []int{0, 1, 7, 511, 512, 513, 1000, 4096, 65536}
		groups = append(groups,
			c05Group{Name: "w4-all-layouts-up-to-2-namespaces", Layouts: c05Minus(sq.Layouts(4, 2, nil), c05W4Quick())},
			c05Group{Name: "w8-every-tail-padding-amount", Layouts: c05TailSweep(8)},
			c05Group{Name: "w8-fixed-list", Layouts: c05Minus(sq.Fixed8(), c05TailSweep(8))},
			c05Group{Name: "w2-all-layouts-namespace-padding", Layouts: c05Minus(sq.Layouts(2, 0, []int{1, 2}), sq.Layouts(2, 0, nil))},
			c05Group{Name: "w4-all-layouts-with-3-namespaces", Layouts: c05Minus(sq.Layouts(4, 3, nil), append(sq.Layouts(4, 2, nil), c05W4Quick()...))},
		)
	}
	return groups, chunks
}

func c05Minus(a, b []sq.Layout) []sq.Layout {
	drop := map[string]bool{}
	for _, l := range b {
		drop[l.String()] = true
	}
	var out []sq.Layout
	for _, l := range c05Dedup(a) {
		if !drop[l.String()] {
			out = append(out, l)
		}
	}
	return out
}

// c05Square runs both order scenarios for one layout and returns the observation digest and the
// signatures raised.
func c05Square(rep *vx.Report, st *c05Stats, l sq.Layout, chunks []int, tmp string, sink *c05SampleSink) (digest string, sigs []string, err error) {
	S, err := sq.Build(l, 0)
	if err != nil {
		return "", nil, err
	}
	S2, err := sq.Build(l, 1)
	if err != nil {
		return "", nil, err
	}
	st.squares++
	var dg []string
	set := map[string]bool{}
	for _, order := range []string{"fwd", "rev"} {
		c := newC05Ctx(rep, st, S, S2, order, chunks, tmp)
		c.sample = sink
		c.scenario()
		dg = append(dg, hex.EncodeToString(c.dig.Sum(nil)))
		for s := range c.sigs {
			set[s] = true
		}
	}
	for s := range set {
		sigs = append(sigs, s)
	}
	sort.Strings(sigs)
	return strings.Join(dg, "+"), sigs, nil
}

var c05Ballast []byte

func TestVerifC05(t *testing.T) {
	logging.SetAllLoggers(logging.LevelFatal)
	c05Ballast = make([]byte, 256<<20)
	debug.SetGCPercent(200)

	rep := vx.NewReport("C05", "model_checking")
	rep.Rule = "cases = (square layout) x (representation of the stored block) x (read operation, argument); layouts are ALL namespace layouts of the stated widths " +
		"(every tail-padding amount 0..w*w, the empty block included), arguments are ALL coordinates / axis halves / probe namespaces x rows / [from,to) ranges plus a fixed " +
		"out-of-bounds list; each representation instance is queried cold and warm, in forward and reverse operation order. A case is distinct if it differs in layout, " +
		"representation, operation or argument (counted once, in the cold forward pass; warm/reverse repeats count only as evaluations); it is non-trivial because its answer " +
		"is compared byte-for-byte with the rsmt2d reference and verified with the real shwap verifier (meta calls Size/DataHash/AxisRoots are included in the count)."
	rep.Assumptions = []string{
		"reference = rsmt2d/celestia-app extension and DataAvailabilityHeader of the square as generated by verifx/sq",
		"an answer byte-identical (shares, proof nodes, range, type) to one already handed to the real verifier for the same request reuses that verdict; every distinct answer is really verified",
		"the streamed square may omit trailing tail-padding shares (documented file format; eds.ReadShares substitutes them): the stream must be a share-aligned prefix of the original square whose omitted part is tail padding only, and eds.ReadShares/eds.ReadAccessor over it must give the stored square",
		"ranges spanning more than one namespace may be refused (RangeNamespaceData is per namespace); tail-padding and parity namespaces may be refused by the validating layer; whatever is returned must be exact and verify",
		"out-of-bounds rejection (an error: no data, no panic) is demanded of every stack containing the validating layer and of everything the Store/CachedStore/Getter hand out; unvalidated inner layers are not probed out of bounds",
		"file system = tmpfs directory per square; no short reads, no concurrent writers (C07/C08 cover crash and concurrency)",
	}
	tmp := os.Getenv("VERIF_TMP")
	if tmp == "" {
		tmp = t.TempDir()
	}

	// the canonical empty block of the repository must be the w1:TAIL1 square of the generator
	if e, err := sq.Build(sq.MustParse("w1:TAIL1")[0], 0); err != nil || !share.DataHash(e.DAH.Hash()).IsEmptyEDS() || !e.EDS.Equals(share.EmptyEDS()) {
		rep.Infra(fmt.Sprintf("generator square w1:TAIL1 is not the repository's empty block (err=%v)", err))
		rep.SetExhaustive(false)
		rep.Finish()
		t.FailNow()
	}

	groups, chunks := c05Groups(rep.Tier)
	restricted := false
	if only := os.Getenv("VERIF_C05_ONLY"); only != "" { // development aid: run the groups whose name contains the string
		var keep []c05Group
		for _, g := range groups {
			if strings.Contains(g.Name, only) {
				keep = append(keep, g)
			}
		}
		groups, restricted = keep, true
	}

	if p := os.Getenv("VERIF_REPLAY"); p != "" {
		c05Replay(t, rep, p, chunks, tmp)
		return
	}

	deadline := rep.Deadline(85*time.Second, 17*time.Minute)
	total := newC05Stats()
	sink := &c05SampleSink{seen: map[string]bool{}}
	complete := true
	var results []c05GroupResult
	determinismChecked := 0

	for _, g := range groups {
		if rep.Violations() > 0 {
			// a violation ends the run after the group it was found in (groups go from small to large squares)
			complete = false
			fmt.Printf("VERIF-PROGRESS C05 group %s: skipped, violations found in an earlier group\n", g.Name)
			results = append(results, c05GroupResult{Name: g.Name, Layouts: len(g.Layouts)})
			continue
		}
		t0 := time.Now()
		gs := newC05Stats()
		// determinism self-check: the first layout of the group evaluated twice must give identical observations
		if len(g.Layouts) > 0 && time.Now().Before(deadline) {
			scratch := newC05Stats()
			d1, _, err1 := c05Square(rep, scratch, g.Layouts[0], chunks, tmp, nil)
			d2, _, err2 := c05Square(rep, scratch, g.Layouts[0], chunks, tmp, nil)
			if err1 != nil || err2 != nil || d1 != d2 {
				rep.Infra(fmt.Sprintf("NONDETERMINISM: layout %s evaluated twice gave different observations (%v %v)", g.Layouts[0], err1, err2))
				complete = false
			}
			determinismChecked++
		}
		order := make([]int, len(g.Layouts))
		for i := range order {
			order[i] = i
		}
		if n := len(order); n > 0 && rep.Seed != 0 { // the seed only rotates the order
			k := int(uint64(rep.Seed) % uint64(n))
			order = append(order[k:], order[:k]...)
		}
		var next int64 = -1
		var done int64
		var mu sync.Mutex
		var wg sync.WaitGroup
		for w := 0; w < vx.Workers(); w++ {
			wg.Add(1)
			go func() {
				defer wg.Done()
				st := newC05Stats()
				for {
					i := int(atomic.AddInt64(&next, 1))
					if i >= len(order) || time.Now().After(deadline) {
						break
					}
					l := g.Layouts[order[i]]
					if _, _, err := c05Square(rep, st, l, chunks, tmp, sink); err != nil {
						rep.Infra(fmt.Sprintf("cannot build %s: %v", l, err))
						continue
					}
					atomic.AddInt64(&done, 1)
				}
				mu.Lock()
				gs.merge(st)
				mu.Unlock()
			}()
		}
		wg.Wait()
		if int(done) != len(g.Layouts) {
			complete = false
		}
		total.merge(gs)
		results = append(results, c05GroupResult{Name: g.Name, Layouts: len(g.Layouts), Completed: int(done), Calls: gs.calls, WallS: time.Since(t0).Seconds()})
		fmt.Printf("VERIF-PROGRESS C05 group %s: %d/%d layouts, %d judged calls, %.1fs\n", g.Name, done, len(g.Layouts), gs.calls, time.Since(t0).Seconds())
	}

	rep.Count(total.calls, total.distinct, total.instances, total.calls)
	rep.Set("groups", results)
	rep.Set("squares", total.squares)
	rep.Set("accessor_instances", total.instances)
	rep.Set("representations", len(total.reps))
	rep.Set("calls_per_representation", total.reps)
	rep.Set("calls_per_operation", total.ops)
	rep.Set("positive_controls_served_equal_and_verified", total.positive)
	rep.Set("out_of_bounds_probes", total.oobProbes)
	rep.Set("out_of_bounds_rejected", total.oobRejected)
	rep.Set("out_of_bounds_arguments_seen_below_a_validating_layer", total.oobLeaks)
	rep.Set("verifier_executions", total.verifierReal)
	rep.Set("verdicts_reused_for_byte_identical_answers", total.verifierMemo)
	rep.Set("stream_classes", total.streams)
	rep.Set("namespace_classes", total.nsClasses)
	rep.Set("unjudged_panics_of_unvalidated_layers", total.barePanics)
	rep.Set("distinct_outcomes", len(total.outcomes))
	rep.Set("outcome_histogram", c05Top(total.outcomes, 80))
	rep.Set("reader_chunk_sizes", chunks)
	rep.Set("determinism_self_checks", determinismChecked)
	var ru syscall.Rusage
	if syscall.Getrusage(syscall.RUSAGE_SELF, &ru) == nil {
		cpu := float64(ru.Utime.Sec+ru.Stime.Sec) + float64(ru.Utime.Usec+ru.Stime.Usec)/1e6
		rep.Set("cpu_seconds_of_this_run", cpu)
		fmt.Printf("VERIF-PROGRESS C05 cpu %.0fs over %d workers\n", cpu, vx.Workers())
	}
	for _, s := range sink.out {
		rep.AddSample(s)
	}
	rep.SetExhaustive(complete && !restricted)
	if rep.Finish() > 0 {
		t.Fail()
	}
}

func c05Top(m map[string]int64, n int) map[string]int64 {
	type kv struct {
		k string
		v int64
	}
	var l []kv
	for k, v := range m {
		l = append(l, kv{k, v})
	}
	sort.Slice(l, func(i, j int) bool {
		if l[i].v != l[j].v {
			return l[i].v > l[j].v
		}
		return l[i].k < l[j].k
	})
	out := map[string]int64{}
	for i, e := range l {
		if i >= n {
			out["(other)"] += e.v
			continue
		}
		out[e.k] = e.v
	}
	return out
}

// c05Replay re-executes the whole square of a recorded case five times.
func c05Replay(t *testing.T, rep *vx.Report, path string, chunks []int, tmp string) {
	b, err := os.ReadFile(path)
	if err != nil {
		t.Fatalf("replay: %v", err)
	}
	var doc struct {
		Signature string  `json:"signature"`
		Replay    c05Case `json:"replay"`
	}
	if err := json.Unmarshal(b, &doc); err != nil {
		t.Fatalf("replay: %v", err)
	}
	l, err := sq.ParseLayout(doc.Replay.Layout)
	if err != nil {
		t.Fatalf("replay: %v", err)
	}
	fmt.Printf("REPLAY-CASE %+v (signature %s)\n", doc.Replay, doc.Signature)
	hits := 0
	var first string
	for i := 0; i < 5; i++ {
		st := newC05Stats()
		dg, sigs, err := c05Square(rep, st, l, chunks, tmp, nil)
		if err != nil {
			t.Fatalf("replay: %v", err)
		}
		res := dg + " " + strings.Join(sigs, ",")
		if i == 0 {
			first = res
			fmt.Printf("REPLAY-OBSERVED signatures=%v calls=%d\n", sigs, st.calls)
			rep.Count(st.calls, st.distinct, st.instances, st.calls)
		} else if res != first {
			t.Fatalf("NONDETERMINISM: replay %d gave %q, earlier %q", i, res, first)
		}
		for _, s := range sigs {
			if s == doc.Signature {
				hits++
			}
		}
	}
	rep.AddSample(doc.Replay)
	if hits == 5 {
		fmt.Printf("REPLAY-RESULT violation reproduced 5/5: %s\n", doc.Signature)
	} else {
		fmt.Printf("REPLAY-RESULT signature %s reproduced %d/5\n", doc.Signature, hits)
	}
	rep.SetExhaustive(false)
	rep.Finish()
}
