package store

// C05 — the ways a stored block is held. One scenario per (square, order) builds every representation
// on a private directory and runs the full operation list over it twice (cold, then warm caches).

import (
	"bytes"
	"fmt"
	"os"
	"path/filepath"
	"strings"

	libshare "github.com/celestiaorg/go-square/v4/share"

	"github.com/celestiaorg/celestia-node/share/eds"
	"github.com/celestiaorg/celestia-node/share/shwap"
	"github.com/celestiaorg/celestia-node/store/file"
)

const (
	c05Height      = uint64(7)
	c05NeighbourAt = uint64(8)
)

// infra reports a harness-side failure (cannot create a file etc.): never a property verdict.
func (c *c05Ctx) infra(format string, a ...any) {
	c.rep.Infra(fmt.Sprintf("square %s order %s: ", c.lay, c.order) + c05ASCII(fmt.Sprintf(format, a...)))
}

// twoPasses opens one instance and runs the operation list cold and warm on it.
func (c *c05Ctx) twoPasses(ri *c05Rep, open func() (eds.AccessorStreamer, error), passes ...string) {
	acc, err := open()
	if err != nil {
		c.ri, c.pass = ri, "open"
		c.fail("open", "error", "", fmt.Sprintf("the stored block cannot be opened: %v", err))
		return
	}
	c.st.instances++
	if len(passes) == 0 {
		passes = []string{"cold", "warm"}
	}
	for _, p := range passes {
		c.passAccessor(ri, acc, p)
	}
	if err := acc.Close(); err != nil {
		c.ri, c.pass = ri, "close"
		c.note("close", "", "err:"+c05Norm(err.Error(), 40))
	}
}

type c05Layer struct {
	name      string
	validated bool
	mk        func(x eds.AccessorStreamer, n int) (eds.AccessorStreamer, *c05Spy)
}

func c05Layers() []c05Layer {
	return []c05Layer{
		{"plain", false, func(x eds.AccessorStreamer, _ int) (eds.AccessorStreamer, *c05Spy) { return x, nil }},
		{"proofs-cache", false, func(x eds.AccessorStreamer, _ int) (eds.AccessorStreamer, *c05Spy) { return eds.WithProofsCache(x), nil }},
		{"close-once", false, func(x eds.AccessorStreamer, _ int) (eds.AccessorStreamer, *c05Spy) { return eds.WithClosedOnce(x), nil }},
		{"validation", true, func(x eds.AccessorStreamer, n int) (eds.AccessorStreamer, *c05Spy) {
			spy := &c05Spy{AccessorStreamer: x, n: n}
			return eds.AccessorAndStreamer(eds.WithValidation(spy), spy), spy
		}},
		// the store's own wrapper stack (validation over close-once over proofs cache), spy at the bottom
		{"store-wrap", true, func(x eds.AccessorStreamer, n int) (eds.AccessorStreamer, *c05Spy) {
			spy := &c05Spy{AccessorStreamer: x, n: n}
			return wrapAccessor(spy), spy
		}},
	}
}

func (c *c05Ctx) scenario() {
	dir, err := os.MkdirTemp(c.tmp, "c05-")
	if err != nil {
		c.infra("mkdir: %v", err)
		return
	}
	defer os.RemoveAll(dir)
	c.fileLevel(dir)
	c.storeLevel(dir)
}

// ---------------------------------------------------------------- accessor implementations x wrappers

func (c *c05Ctx) fileLevel(dir string) {
	pODS := filepath.Join(dir, "a.ods")
	pODS2 := filepath.Join(dir, "b.ods")
	pQ4 := filepath.Join(dir, "b.q4")
	if err := file.CreateODS(pODS, c.roots, c.S.EDS); err != nil {
		c.infra("CreateODS: %v", err)
		return
	}
	if err := file.CreateODSQ4(pODS2, pQ4, c.roots, c.S.EDS); err != nil {
		c.infra("CreateODSQ4: %v", err)
		return
	}
	type base struct {
		name string
		open func() (eds.AccessorStreamer, error)
	}
	bases := []base{
		{"mem", func() (eds.AccessorStreamer, error) { return &eds.Rsmt2D{ExtendedDataSquare: c.S.EDS}, nil }},
		{"ods", func() (eds.AccessorStreamer, error) { return file.OpenODS(pODS) }},
		{"odsq4", func() (eds.AccessorStreamer, error) {
			o, err := file.OpenODS(pODS2)
			if err != nil {
				return nil, err
			}
			return file.ODSWithQ4(o, pQ4), nil
		}},
		{"odsq4-noq4", func() (eds.AccessorStreamer, error) {
			o, err := file.OpenODS(pODS)
			if err != nil {
				return nil, err
			}
			return file.ODSWithQ4(o, filepath.Join(dir, "missing.q4")), nil
		}},
	}
	layers := c05Layers()
	for _, bi := range c.seq(len(bases)) {
		b := bases[bi]
		for _, li := range c.seq(len(layers)) {
			l := layers[li]
			stateless := b.name == "mem" && l.name != "proofs-cache" && l.name != "store-wrap"
			passThrough := l.name == "close-once" || l.name == "validation"
			// close-once and validation keep no data of their own: they are stacked on the in-memory and the
			// ODS+Q4 accessor only (and are part of store-wrap on every base); representations without any
			// state get one pass; the reverse-order scenario is run for the stateful ones.
			if passThrough && b.name != "mem" && b.name != "odsq4" {
				continue
			}
			// the store's wrapper stack over the plain ODS file / the ODS file without parity file is what
			// Store.GetByHeight returns after pruning (store:q4-pruned, store:ods-only): not repeated here
			if l.name == "store-wrap" && (b.name == "ods" || b.name == "odsq4-noq4") {
				continue
			}
			if c.rev && (stateless || passThrough) {
				continue
			}
			passes := []string{"cold", "warm"}
			if stateless {
				passes = []string{"cold"}
			}
			ri := &c05Rep{name: "file:" + b.name + "/" + l.name, class: b.name + "/" + l.name, validated: l.validated}
			c.twoPasses(ri, func() (eds.AccessorStreamer, error) {
				x, err := b.open()
				if err != nil {
					return nil, err
				}
				acc, spy := l.mk(x, c.N)
				ri.spy = spy
				return acc, nil
			}, passes...)
		}
	}

	// the parity file disappears while the accessor is open: before its first use / after its first use
	for _, when := range []string{"before-first-parity-read", "after-first-parity-read"} {
		pO := filepath.Join(dir, when+".ods")
		pQ := filepath.Join(dir, when+".q4")
		if err := file.CreateODSQ4(pO, pQ, c.roots, c.S.EDS); err != nil {
			c.infra("CreateODSQ4: %v", err)
			return
		}
		ri := &c05Rep{name: "file:odsq4-unlinked-" + when + "/store-wrap", class: "odsq4-unlinked/store-wrap", validated: true}
		c.twoPasses(ri, func() (eds.AccessorStreamer, error) {
			o, err := file.OpenODS(pO)
			if err != nil {
				return nil, err
			}
			acc := wrapAccessor(file.ODSWithQ4(o, pQ))
			if when == "after-first-parity-read" {
				if _, err := acc.Sample(c.ctx, shwap.SampleCoords{Row: c.N - 1, Col: c.N - 1}); err != nil {
					return nil, fmt.Errorf("priming parity read: %w", err)
				}
			}
			if err := os.Remove(pQ); err != nil {
				return nil, err
			}
			return acc, nil
		})
	}

	// the parity file is present but incomplete (the process died while PutODSQ4 was writing it) or over-long:
	// the accessor must not serve it - neither on the first parity read nor on a later one of the same instance
	for _, tl := range c.q4Lengths() {
		pO := filepath.Join(dir, "trunc-"+tl.label+".ods")
		pQ := filepath.Join(dir, "trunc-"+tl.label+".q4")
		if err := file.CreateODSQ4(pO, pQ, c.roots, c.S.EDS); err != nil {
			c.infra("CreateODSQ4: %v", err)
			return
		}
		if err := os.Truncate(pQ, int64(tl.n)); err != nil {
			c.infra("truncate: %v", err)
			return
		}
		open := func() (eds.AccessorStreamer, error) {
			o, err := file.OpenODS(pO)
			if err != nil {
				return nil, err
			}
			return file.ODSWithQ4(o, pQ), nil
		}
		passes := []string{"cold-light", "warm-light"}
		if tl.full {
			passes = []string{"cold", "warm"}
		}
		c.twoPasses(&c05Rep{name: "file:odsq4-q4-incomplete-" + tl.label + "/plain", class: "odsq4-q4-incomplete/plain"},
			open, "cold-light", "warm-light")
		c.twoPasses(&c05Rep{name: "file:odsq4-q4-incomplete-" + tl.label + "/store-wrap", class: "odsq4-q4-incomplete/store-wrap", validated: true},
			func() (eds.AccessorStreamer, error) {
				x, err := open()
				if err != nil {
					return nil, err
				}
				return wrapAccessor(x), nil
			}, passes...)
	}
}

type c05Q4Len struct {
	label string
	n     int
	full  bool // full operation list (the other lengths get the short list)
}

// q4Lengths: the sizes an incomplete parity file is cut to (the complete size itself is left out).
func (c *c05Ctx) q4Lengths() []c05Q4Len {
	size := c.W * c.W * libshare.ShareSize
	var out []c05Q4Len
	seen := map[int]bool{size: true}
	for _, l := range []c05Q4Len{{"0-bytes", 0, true}, {"size-minus-1-byte", size - 1, true}, {"1-share", libshare.ShareSize, false},
		{"half", size / 2, false}, {"size-plus-1-byte", size + 1, false}} {
		if !seen[l.n] {
			seen[l.n] = true
			out = append(out, l)
		}
	}
	return out
}

// ---------------------------------------------------------------- the store

func (c *c05Ctx) storeLevel(dir string) {
	dirA := filepath.Join(dir, "storeA")
	dirB := filepath.Join(dir, "storeB")
	for _, d := range []string{dirA, dirB} {
		if err := os.Mkdir(d, 0o755); err != nil {
			c.infra("mkdir: %v", err)
			return
		}
	}
	isEmpty := c.dhash.IsEmptyEDS()
	neighbour := !bytes.Equal(c.S2.DAH.Hash(), c.dhash)

	byHeight := func(s *Store, h uint64) func() (eds.AccessorStreamer, error) {
		return func() (eds.AccessorStreamer, error) { return s.GetByHeight(c.ctx, h) }
	}
	cachedByHeight := func(s *CachedStore, h uint64) func() (eds.AccessorStreamer, error) {
		return func() (eds.AccessorStreamer, error) { return s.GetByHeight(c.ctx, h) }
	}
	// signature class of a store representation: the state of the store (fresh-put, reopen-odsq4, q4-pruned, ...),
	// not the access path
	rep := func(name string) *c05Rep {
		state, _, _ := strings.Cut(name, "/")
		return &c05Rep{name: "store:" + name, class: "store:" + state, validated: true}
	}

	// --- A: put with parity quadrant, read while recent (in memory), through the Getter, by hash
	stA, err := NewStore(DefaultParameters(), dirA)
	if err != nil {
		c.infra("NewStore: %v", err)
		return
	}
	if err := stA.PutODSQ4(c.ctx, c.roots, c05Height, c.S.EDS); err != nil {
		c.ri, c.pass = rep("put"), "put"
		c.fail("put", "error", "", fmt.Sprintf("PutODSQ4 failed: %v", err))
		return
	}
	if neighbour {
		if err := stA.PutODSQ4(c.ctx, c.S2.DAH, c05NeighbourAt, c.S2.EDS); err != nil {
			c.infra("put neighbour: %v", err)
			neighbour = false
		}
	}
	c.twoPasses(rep("fresh-put/GetByHeight"), byHeight(stA, c05Height))
	gA := NewGetter(stA)
	c.passGetter(rep("fresh-put/Getter"), gA, c05Height, "cold")
	c.passGetter(rep("fresh-put/Getter"), gA, c05Height, "warm")
	byHash := rep("fresh-put/GetByHash")
	byHash.validated = !isEmpty // the empty block by hash is the bare shared in-memory accessor
	c.twoPasses(byHash, func() (eds.AccessorStreamer, error) { return stA.GetByHash(c.ctx, c.dhash) }, "cold")
	if neighbour {
		c.checkNeighbour(rep("fresh-put/neighbour"), stA)
	}
	// a serving cache added on top of a store that still has the block in its recent cache hands out that one
	if csA, err := stA.WithCache("serving", 4); err != nil {
		c.infra("WithCache: %v", err)
	} else {
		c.twoPasses(rep("fresh-put/serving-cache-reads-recent-cache"), cachedByHeight(csA, c05Height), "hit")
	}
	c.dropCached(stA, c05Height, c05NeighbourAt)

	// --- B: a new Store over the same directory: files with the parity quadrant
	stB, err := NewStore(DefaultParameters(), dirA)
	if err != nil {
		c.infra("NewStore(reopen): %v", err)
		return
	}
	c.twoPasses(rep("reopen-odsq4/GetByHeight"), byHeight(stB, c05Height))
	gB := NewGetter(stB)
	c.passGetter(rep("reopen-odsq4/Getter"), gB, c05Height, "cold")
	csB, err := stB.WithCache("serving", 4)
	if err != nil {
		c.infra("WithCache: %v", err)
		return
	}
	c.twoPasses(rep("reopen-odsq4/serving-cache-load"), cachedByHeight(csB, c05Height), "cold")
	c.twoPasses(rep("reopen-odsq4/serving-cache-hit"), cachedByHeight(csB, c05Height), "hit")
	c.twoPasses(rep("reopen-odsq4/GetByHeight-via-serving-cache"), byHeight(stB, c05Height), "hit")
	c.passGetter(rep("reopen-odsq4/Getter-via-serving-cache"), gB, c05Height, "hit")
	if neighbour {
		c.checkNeighbour(rep("reopen-odsq4/neighbour"), stB)
	}

	// --- the parity quadrant is pruned (every handle is closed: RemoveQ4 waits for readers)
	if err := stB.RemoveQ4(c.ctx, c05Height, c.dhash); err != nil {
		c.ri, c.pass = rep("remove-q4"), "prune"
		c.fail("remove-q4", "error", "", fmt.Sprintf("RemoveQ4 failed: %v", err))
	}
	if !isEmpty {
		if _, err := os.Stat(stB.hashToPath(c.dhash, q4FileExt)); err == nil {
			c.ri, c.pass = rep("remove-q4"), "prune"
			c.fail("remove-q4", "file-left", "", "parity file still present after RemoveQ4")
		}
	}
	c.twoPasses(rep("q4-pruned/GetByHeight"), byHeight(stB, c05Height))
	c.twoPasses(rep("q4-pruned/serving-cache-load"), cachedByHeight(csB, c05Height), "cold")
	c.twoPasses(rep("q4-pruned/serving-cache-hit"), cachedByHeight(csB, c05Height), "hit")
	c.passGetter(rep("q4-pruned/Getter"), gB, c05Height, "cold")
	c.dropCached(stB, c05Height, c05NeighbourAt)

	// --- C: a new Store over the pruned directory
	stC, err := NewStore(DefaultParameters(), dirA)
	if err != nil {
		c.infra("NewStore(reopen 2): %v", err)
		return
	}
	c.twoPasses(rep("reopen-pruned/GetByHeight"), byHeight(stC, c05Height), "cold")
	if neighbour {
		c.checkNeighbour(rep("reopen-pruned/neighbour"), stC)
	}

	// --- D: stored without parity quadrant, recent cache disabled
	stD, err := NewStore(&Parameters{RecentBlocksCacheSize: 0}, dirB)
	if err != nil {
		c.infra("NewStore(B): %v", err)
		return
	}
	if err := stD.PutODS(c.ctx, c.roots, c05Height, c.S.EDS); err != nil {
		c.ri, c.pass = rep("put-ods"), "put"
		c.fail("put", "error", "", fmt.Sprintf("PutODS failed: %v", err))
		return
	}
	c.twoPasses(rep("ods-only-nocache/GetByHeight"), byHeight(stD, c05Height))
	csD, err := stD.WithCache("serving", 4)
	if err != nil {
		c.infra("WithCache: %v", err)
		return
	}
	c.twoPasses(rep("ods-only-nocache/serving-cache-load"), cachedByHeight(csD, c05Height), "cold")
	c.passGetter(rep("ods-only-nocache/Getter-via-serving-cache"), NewGetter(stD), c05Height, "hit")
	c.dropCached(stD, c05Height)

	if isEmpty {
		return // the empty block's files are rewritten by every NewStore
	}
	qsize := c.W * c.W * libshare.ShareSize

	// --- E: stored with parity quadrant, the parity file then cut short (crash while writing it), directory re-opened
	dirC := filepath.Join(dir, "storeC")
	dirD := filepath.Join(dir, "storeD")
	for _, d := range []string{dirC, dirD} {
		if err := os.Mkdir(d, 0o755); err != nil {
			c.infra("mkdir: %v", err)
			return
		}
	}
	stE, err := NewStore(DefaultParameters(), dirC)
	if err != nil {
		c.infra("NewStore(C): %v", err)
		return
	}
	if err := stE.PutODSQ4(c.ctx, c.roots, c05Height, c.S.EDS); err != nil {
		c.ri, c.pass = rep("put"), "put"
		c.fail("put", "error", "", fmt.Sprintf("PutODSQ4 failed: %v", err))
		return
	}
	c.dropCached(stE, c05Height)
	pQ := stE.hashToPath(c.dhash, q4FileExt)
	if err := os.Truncate(pQ, int64(qsize-1)); err != nil {
		c.infra("truncate: %v", err)
		return
	}
	stF, err := NewStore(DefaultParameters(), dirC)
	if err != nil {
		c.infra("NewStore(C reopen): %v", err)
		return
	}
	c.twoPasses(rep("reopen-q4-incomplete/GetByHeight"), byHeight(stF, c05Height))
	csF, err := stF.WithCache("serving", 4)
	if err != nil {
		c.infra("WithCache: %v", err)
		return
	}
	c.twoPasses(rep("reopen-q4-incomplete/serving-cache-load"), cachedByHeight(csF, c05Height), "cold-light", "warm-light")
	c.passGetter(rep("reopen-q4-incomplete/Getter-via-serving-cache"), NewGetter(stF), c05Height, "hit")
	c.dropCached(stF, c05Height)
	if err := os.Truncate(pQ, 0); err != nil {
		c.infra("truncate: %v", err)
		return
	}
	c.twoPasses(rep("reopen-q4-incomplete/GetByHash-empty-q4"), func() (eds.AccessorStreamer, error) { return stF.GetByHash(c.ctx, c.dhash) },
		"cold-light", "warm-light")

	// --- F: an incomplete parity file is left over from an earlier attempt, the block is then stored ODS-only
	stG, err := NewStore(&Parameters{RecentBlocksCacheSize: 0}, dirD)
	if err != nil {
		c.infra("NewStore(D): %v", err)
		return
	}
	if err := os.WriteFile(stG.hashToPath(c.dhash, q4FileExt), make([]byte, qsize/2), 0o644); err != nil {
		c.infra("leftover q4: %v", err)
		return
	}
	if err := stG.PutODS(c.ctx, c.roots, c05Height, c.S.EDS); err != nil {
		c.ri, c.pass = rep("put-ods"), "put"
		c.fail("put", "error", "", fmt.Sprintf("PutODS over a leftover parity file failed: %v", err))
		return
	}
	c.twoPasses(rep("ods-put-over-leftover-q4/GetByHeight"), byHeight(stG, c05Height))
}

// dropCached closes whatever the store's caches still hold (file handles), so nothing leaks between squares.
func (c *c05Ctx) dropCached(s *Store, heights ...uint64) {
	for _, h := range heights {
		if err := s.cache.Remove(h); err != nil {
			c.infra("cache.Remove(%d): %v", h, err)
		}
	}
}

// checkNeighbour: a second, different block stored next to the one under test is still itself.
func (c *c05Ctx) checkNeighbour(ri *c05Rep, s *Store) {
	c.ri, c.pass = ri, "cold"
	acc, err := s.GetByHeight(c.ctx, c05NeighbourAt)
	if err != nil {
		c.fail("neighbour", "error", "", fmt.Sprintf("neighbour block cannot be opened: %v", err))
		return
	}
	defer acc.Close()
	c.st.instances++
	dh, err := acc.DataHash(c.ctx)
	if err != nil || !bytes.Equal(dh, c.S2.DAH.Hash()) {
		c.fail("neighbour", "wrong-datahash", "", fmt.Sprintf("neighbour block reports data hash %X (err=%v)", []byte(dh), err))
		return
	}
	shs, err := acc.Shares(c.ctx)
	if err != nil || !c05SharesEq(shs, c.S2.ODS()) {
		c.fail("neighbour", "wrong-shares", "", fmt.Sprintf("neighbour block returns other shares than stored (err=%v)", err))
		return
	}
	for _, co := range []shwap.SampleCoords{{Row: 0, Col: 0}, {Row: c.N - 1, Col: c.N - 1}} {
		smp, err := acc.Sample(c.ctx, co)
		if err != nil || !bytes.Equal(smp.Share.ToBytes(), c.S2.EDS.GetCell(uint(co.Row), uint(co.Col))) || smp.Verify(c.S2.DAH, co.Row, co.Col) != nil {
			c.fail("neighbour", "wrong-sample", fmt.Sprintf("%d,%d", co.Row, co.Col), fmt.Sprintf("neighbour block sample wrong or not verifying (err=%v)", err))
			return
		}
	}
	c.st.positive++
	c.note("neighbour", "", "ok")
}
