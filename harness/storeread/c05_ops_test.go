package store

// C05 — operations and oracle.
//
// Every read operation of an eds.AccessorStreamer (and of store.Getter) is called with EVERY argument of
// the square (all coordinates, all axis halves, all probe namespaces x rows, all [from,to) ranges) and a
// fixed list of out-of-bounds arguments; the answer is compared byte-for-byte with the rsmt2d reference
// square (verifx/sq) and handed to the real shwap verifier against the reference roots.

import (
	"bytes"
	"context"
	"crypto/sha256"
	"encoding/binary"
	"errors"
	"fmt"
	"hash"
	"io"
	"math"
	"strings"

	libshare "github.com/celestiaorg/go-square/v4/share"
	"github.com/celestiaorg/nmt"
	"github.com/celestiaorg/rsmt2d"

	"github.com/celestiaorg/celestia-node/header"
	"github.com/celestiaorg/celestia-node/share"
	"github.com/celestiaorg/celestia-node/share/eds"
	"github.com/celestiaorg/celestia-node/share/shwap"
	"github.com/celestiaorg/celestia-node/verifx/sq"
	"github.com/celestiaorg/celestia-node/verifx/vx"
)

// c05Case identifies one judged operation; it is the replay artefact (the whole square is re-run).
type c05Case struct {
	Layout  string `json:"layout"`
	Order   string `json:"order"`
	Rep     string `json:"rep"`
	Pass    string `json:"pass"`
	Op      string `json:"op"`
	Arg     string `json:"arg"`
	Outcome string `json:"outcome,omitempty"`
}

type c05Stats struct {
	calls        int64 // judged operation calls (all passes)
	distinct     int64 // distinct (square, representation, operation, argument), counted in the cold forward pass
	instances    int64 // accessor instances opened
	squares      int64
	verifierReal int64 // real shwap verifier executions
	verifierMemo int64 // answers byte-identical to an already verified answer of the same request
	oobProbes    int64
	oobRejected  int64
	positive     int64 // in-bounds reads served byte-equal and verified
	barePanics   int64 // out-of-contract panics of unvalidated layers (recorded, not judged)
	oobLeaks     int64 // out-of-bounds arguments seen below a validating layer (recorded, not judged)
	ops          map[string]int64
	outcomes     map[string]int64
	reps         map[string]int64
	streams      map[string]int64
	nsClasses    map[string]int64
}

func newC05Stats() *c05Stats {
	return &c05Stats{ops: map[string]int64{}, outcomes: map[string]int64{}, reps: map[string]int64{},
		streams: map[string]int64{}, nsClasses: map[string]int64{}}
}

func (s *c05Stats) merge(o *c05Stats) {
	s.calls += o.calls
	s.distinct += o.distinct
	s.instances += o.instances
	s.squares += o.squares
	s.verifierReal += o.verifierReal
	s.verifierMemo += o.verifierMemo
	s.oobProbes += o.oobProbes
	s.oobRejected += o.oobRejected
	s.positive += o.positive
	s.barePanics += o.barePanics
	s.oobLeaks += o.oobLeaks
	for k, v := range o.ops {
		s.ops[k] += v
	}
	for k, v := range o.outcomes {
		s.outcomes[k] += v
	}
	for k, v := range o.reps {
		s.reps[k] += v
	}
	for k, v := range o.streams {
		s.streams[k] += v
	}
	for k, v := range o.nsClasses {
		s.nsClasses[k] += v
	}
}

// c05Rep describes one way the block is held.
type c05Rep struct {
	name      string // e.g. "file:odsq4/store-wrap", "store:reopen/GetByHeight"
	class     string // signature component
	validated bool   // a bounds-validating layer is present: out-of-bounds arguments must come back as errors
	spy       *c05Spy
}

type c05Probe struct {
	sq.Probe
	flat   []libshare.Share
	perRow [][2]int
	cover  map[int]bool
	nCover int
}

// c05Ctx is the evaluation context of one (square, order).
type c05Ctx struct {
	rep    *vx.Report
	st     *c05Stats
	chunks []int
	S, S2  *sq.Square
	lay    string
	order  string
	rev    bool
	roots  *share.AxisRoots
	dhash  share.DataHash
	W, N   int
	ods    []libshare.Share
	odsRaw []byte
	nsRun  []int // per ODS cell: index of the first cell of its namespace run
	probes []c05Probe
	memo   map[[32]byte]error
	dig    hash.Hash
	sigs   map[string]bool
	tmp    string
	ctx    context.Context
	sample *c05SampleSink

	ri   *c05Rep
	pass string
}

func newC05Ctx(rep *vx.Report, st *c05Stats, S, S2 *sq.Square, order string, chunks []int, tmp string) *c05Ctx {
	c := &c05Ctx{rep: rep, st: st, chunks: chunks, S: S, S2: S2, lay: S.Layout.String(), order: order, rev: order == "rev",
		roots: S.DAH, dhash: S.DAH.Hash(), W: S.W, N: S.N, memo: map[[32]byte]error{}, dig: sha256.New(),
		sigs: map[string]bool{}, tmp: tmp, ctx: context.Background()}
	c.ods = S.ODS()
	for i := range c.ods {
		c.odsRaw = append(c.odsRaw, c.ods[i].ToBytes()...)
	}
	c.nsRun = make([]int, len(c.ods))
	for i := range c.ods {
		if i > 0 && bytes.Equal(c.ods[i].Namespace().Bytes(), c.ods[i-1].Namespace().Bytes()) {
			c.nsRun[i] = c.nsRun[i-1]
		} else {
			c.nsRun[i] = i
		}
	}
	for _, p := range sq.Probes() {
		cp := c05Probe{Probe: p, cover: map[int]bool{}}
		cp.flat, cp.perRow = S.NamespaceShares(p.NS)
		for _, r := range S.RowsCovering(p.NS) {
			cp.cover[r] = true
		}
		cp.nCover = len(cp.cover)
		c.probes = append(c.probes, cp)
	}
	return c
}

// seq returns 0..n-1, reversed in the reverse order scenario.
func (c *c05Ctx) seq(n int) []int {
	out := make([]int, n)
	for i := range out {
		if c.rev {
			out[i] = n - 1 - i
		} else {
			out[i] = i
		}
	}
	return out
}

func c05Guard(f func() error) (err error, pan any) {
	defer func() {
		if r := recover(); r != nil {
			pan = r
			err = fmt.Errorf("panic: %v", r)
		}
	}()
	return f(), nil
}

func c05Norm(s string, max int) string {
	s = c05ASCII(s)
	var sb strings.Builder
	for i := 0; i < len(s) && sb.Len() < max; {
		b := s[i]
		isHex := func(b byte) bool { return (b >= '0' && b <= '9') || (b >= 'a' && b <= 'f') || (b >= 'A' && b <= 'F') }
		if b == '-' && i+1 < len(s) && s[i+1] >= '0' && s[i+1] <= '9' {
			i++
			continue
		}
		if b >= '0' && b <= '9' {
			for i < len(s) && isHex(s[i]) {
				i++
			}
			sb.WriteByte('#')
			continue
		}
		if isHex(b) {
			j := i
			for j < len(s) && isHex(s[j]) {
				j++
			}
			if j-i >= 8 {
				sb.WriteByte('#')
			} else {
				sb.WriteString(s[i:j])
			}
			i = j
			continue
		}
		sb.WriteByte(b)
		i++
	}
	return sb.String()
}

// note records one judged call: statistics, observation digest, evidence samples.
func (c *c05Ctx) note(op, arg, outcome string) {
	st := c.st
	st.calls++
	st.ops[op]++
	st.reps[c.ri.name]++
	st.outcomes[op+"/"+outcome]++
	if strings.HasPrefix(c.pass, "cold") && !c.rev {
		st.distinct++
	}
	fmt.Fprintf(c.dig, "%s|%s|%s|%s|%s|%s\n", c.order, c.ri.name, c.pass, op, arg, outcome)
	if c.sample != nil {
		c.sample.offer(c05Case{Layout: c.lay, Order: c.order, Rep: c.ri.name, Pass: c.pass, Op: op, Arg: arg, Outcome: outcome})
	}
}

// c05ASCII makes a message printable (error texts of the code under test may embed raw share bytes).
func c05ASCII(s string) string {
	var sb strings.Builder
	for i := 0; i < len(s) && sb.Len() < 600; i++ {
		if b := s[i]; b >= 0x20 && b < 0x7f {
			sb.WriteByte(b)
		} else {
			fmt.Fprintf(&sb, "\\x%02x", b)
		}
	}
	return sb.String()
}

// fail reports a violation; mech names the mechanism.
func (c *c05Ctx) fail(op, mech, arg, what string) {
	what = c05ASCII(what)
	sig := fmt.Sprintf("C05/%s/%s/%s", op, mech, c.ri.class)
	c.sigs[sig] = true
	c.note(op, arg, "VIOLATION:"+mech)
	c.rep.Violation(sig, fmt.Sprintf("%s; square %s, held as %s (%s pass, %s order), %s(%s)", what, c.lay, c.ri.name, c.pass, c.order, op, arg),
		c05Case{Layout: c.lay, Order: c.order, Rep: c.ri.name, Pass: c.pass, Op: op, Arg: arg, Outcome: mech})
}

func c05SharesEq(a, b []libshare.Share) bool {
	if len(a) != len(b) {
		return false
	}
	for i := range a {
		if !bytes.Equal(a[i].ToBytes(), b[i].ToBytes()) {
			return false
		}
	}
	return true
}

func (c *c05Ctx) where(sh libshare.Share) string {
	if sh.ToBytes() == nil {
		return "nil"
	}
	for r := 0; r < c.N; r++ {
		for col := 0; col < c.N; col++ {
			cell := c.S.Cell(r, col)
			if bytes.Equal(cell.ToBytes(), sh.ToBytes()) {
				return fmt.Sprintf("cell(%d,%d)", r, col)
			}
		}
	}
	h := sha256.Sum256(sh.ToBytes())
	return fmt.Sprintf("foreign:%x", h[:3])
}

func (c *c05Ctx) describe(shs []libshare.Share) string {
	var sb strings.Builder
	sb.WriteByte('[')
	for i := range shs {
		if i > 0 {
			sb.WriteByte(' ')
		}
		if i >= 20 {
			fmt.Fprintf(&sb, "...+%d", len(shs)-i)
			break
		}
		sb.WriteString(c.where(shs[i]))
	}
	sb.WriteByte(']')
	return sb.String()
}

// ---- verification with memo: an answer byte-identical (shares, proof, type) to one already handed to the
// real verifier for the same request gets the recorded verdict; every distinct answer is really verified.

type c05FP struct{ h hash.Hash }

func newFP(kind string, ints ...int) *c05FP {
	f := &c05FP{h: sha256.New()}
	f.h.Write([]byte(kind))
	f.ints(ints...)
	return f
}

func (f *c05FP) ints(v ...int) {
	var b [8]byte
	for _, x := range v {
		binary.LittleEndian.PutUint64(b[:], uint64(int64(x)))
		f.h.Write(b[:])
	}
}

func (f *c05FP) bytes(b []byte) {
	f.ints(len(b))
	f.h.Write(b)
}

func (f *c05FP) shares(s []libshare.Share) {
	f.ints(len(s))
	for i := range s {
		f.bytes(s[i].ToBytes())
	}
}

func (f *c05FP) proof(p *nmt.Proof) {
	if p == nil {
		f.ints(-7)
		return
	}
	ig := 0
	if p.IsMaxNamespaceIDIgnored() {
		ig = 1
	}
	f.ints(p.Start(), p.End(), ig, len(p.Nodes()))
	for _, n := range p.Nodes() {
		f.bytes(n)
	}
	f.bytes(p.LeafHash())
}

func (f *c05FP) sum() (k [32]byte) {
	copy(k[:], f.h.Sum(nil))
	return k
}

func (c *c05Ctx) verify(key [32]byte, f func() error) error {
	if v, ok := c.memo[key]; ok {
		c.st.verifierMemo++
		return v
	}
	err, pan := c05Guard(f)
	if pan != nil {
		err = fmt.Errorf("verifier panicked: %v", pan)
	}
	c.st.verifierReal++
	c.memo[key] = err
	return err
}

// ---------------------------------------------------------------- the pass over one accessor

func (c *c05Ctx) passAccessor(ri *c05Rep, acc eds.AccessorStreamer, pass string) {
	c.ri, c.pass = ri, pass
	groups := []func(eds.AccessorStreamer){c.opMeta, c.opSamples, c.opHalves, c.opRowND, c.opND, c.opRanges, c.opShares, c.opReader, c.opOOB}
	if pass == "hit" || strings.HasSuffix(pass, "-light") {
		// the short list - identity, all samples, all halves, full share list - for (a) a further handle on an
		// accessor instance that already went through the full list (cache plumbing: the right block must come
		// back) and (b) the additional lengths of an incomplete parity file (every parity read goes through
		// AxisHalf; two lengths get the full list)
		groups = []func(eds.AccessorStreamer){c.opMeta, c.opSamples, c.opHalves, c.opShares}
	}
	for _, i := range c.seq(len(groups)) {
		groups[i](acc)
	}
}

func (c *c05Ctx) opMeta(acc eds.AccessorStreamer) {
	var size int
	err, _ := c05Guard(func() (e error) { size, e = acc.Size(c.ctx); return })
	switch {
	case err != nil:
		c.fail("size", "error", "", fmt.Sprintf("Size failed: %v", err))
	case size != c.N:
		c.fail("size", "wrong", "", fmt.Sprintf("Size = %d, stored square has %d", size, c.N))
	default:
		c.note("size", "", "ok")
	}
	var dh share.DataHash
	err, _ = c05Guard(func() (e error) { dh, e = acc.DataHash(c.ctx); return })
	switch {
	case err != nil:
		c.fail("datahash", "error", "", fmt.Sprintf("DataHash failed: %v", err))
	case !bytes.Equal(dh, c.dhash):
		c.fail("datahash", "wrong", "", fmt.Sprintf("DataHash = %X, stored block has %X", []byte(dh), []byte(c.dhash)))
	default:
		c.note("datahash", "", "ok")
	}
	var roots *share.AxisRoots
	err, _ = c05Guard(func() (e error) { roots, e = acc.AxisRoots(c.ctx); return })
	switch {
	case err != nil:
		c.fail("axisroots", "error", "", fmt.Sprintf("AxisRoots failed: %v", err))
	case roots == nil || !c05RootsEq(roots, c.roots):
		c.fail("axisroots", "wrong", "", "AxisRoots differ from the roots of the stored block")
	default:
		c.note("axisroots", "", "ok")
	}
}

func c05RootsEq(a, b *share.AxisRoots) bool {
	if len(a.RowRoots) != len(b.RowRoots) || len(a.ColumnRoots) != len(b.ColumnRoots) {
		return false
	}
	for i := range a.RowRoots {
		if !bytes.Equal(a.RowRoots[i], b.RowRoots[i]) {
			return false
		}
	}
	for i := range a.ColumnRoots {
		if !bytes.Equal(a.ColumnRoots[i], b.ColumnRoots[i]) {
			return false
		}
	}
	return true
}

func (c *c05Ctx) judgeSample(op, arg string, r, col int, s shwap.Sample, err error, pan any) {
	if err != nil {
		mech := "error"
		if pan != nil {
			mech = "panic"
		}
		c.fail(op, mech, arg, fmt.Sprintf("sample of an in-bounds coordinate not served: %v", err))
		return
	}
	ref := c.S.Cell(r, col)
	if !bytes.Equal(s.Share.ToBytes(), ref.ToBytes()) {
		c.fail(op, "wrong-share", arg, fmt.Sprintf("sample carries %s instead of the stored share", c.where(s.Share)))
		return
	}
	fp := newFP("sample", r, col, int(s.ProofType))
	fp.bytes(s.Share.ToBytes())
	fp.proof(s.Proof)
	if verr := c.verify(fp.sum(), func() error { return s.Verify(c.roots, r, col) }); verr != nil {
		c.fail(op, "not-verifying", arg, fmt.Sprintf("sample does not verify against the block's roots: %v", verr))
		return
	}
	c.st.positive++
	c.note(op, arg, fmt.Sprintf("ok/proof-axis=%d", s.ProofType))
}

func (c *c05Ctx) opSamples(acc eds.AccessorStreamer) {
	for _, r := range c.seq(c.N) {
		for _, col := range c.seq(c.N) {
			var s shwap.Sample
			err, pan := c05Guard(func() (e error) { s, e = acc.Sample(c.ctx, shwap.SampleCoords{Row: r, Col: col}); return })
			c.judgeSample("sample", fmt.Sprintf("%d,%d", r, col), r, col, s, err, pan)
		}
	}
}

func (c *c05Ctx) opHalves(acc eds.AccessorStreamer) {
	axes := []rsmt2d.Axis{rsmt2d.Row, rsmt2d.Col}
	for _, ai := range c.seq(2) {
		axis := axes[ai]
		for _, idx := range c.seq(c.N) {
			arg := fmt.Sprintf("axis=%d,idx=%d", axis, idx)
			var h shwap.AxisHalf
			err, pan := c05Guard(func() (e error) { h, e = acc.AxisHalf(c.ctx, axis, idx); return })
			if err != nil {
				mech := "error"
				if pan != nil {
					mech = "panic"
				}
				c.fail("axishalf", mech, arg, fmt.Sprintf("axis half of an in-bounds index not served: %v", err))
				continue
			}
			ref := c.S.Axis(axis, idx)
			want := ref[:c.W]
			side := "left"
			if h.IsParity {
				want = ref[c.W:]
				side = "right"
			}
			if !c05SharesEq(h.Shares, want) {
				c.fail("axishalf", "wrong-shares", arg, fmt.Sprintf("%s half is %s, stored %s", side, c.describe(h.Shares), c.describe(want)))
				continue
			}
			var ext []libshare.Share
			err, pan = c05Guard(func() (e error) { ext, e = h.Extended(); return })
			if err != nil || !c05SharesEq(ext, ref) {
				c.fail("axishalf", "wrong-extension", arg, fmt.Sprintf("extending the %s half does not give the stored axis (err=%v)", side, err))
				continue
			}
			if axis == rsmt2d.Row {
				fp := newFP("row", idx, btoi(h.IsParity))
				fp.shares(h.Shares)
				verr := c.verify(fp.sum(), func() error {
					row := h.ToRow()
					if e := row.Verify(c.roots, idx); e != nil {
						return e
					}
					full, e := row.Shares()
					if e != nil {
						return e
					}
					if !c05SharesEq(full, ref) {
						return errors.New("verified row differs from the stored row")
					}
					return nil
				})
				if verr != nil {
					c.fail("axishalf", "not-verifying", arg, fmt.Sprintf("row built from the %s half does not verify: %v", side, verr))
					continue
				}
			}
			c.st.positive++
			c.note("axishalf", arg, "ok/"+side)
		}
	}
}

func btoi(b bool) int {
	if b {
		return 1
	}
	return 0
}

// judgeRowND applies the oracle to one RowNamespaceData answer.
func (c *c05Ctx) judgeRowND(p *c05Probe, row int, rnd shwap.RowNamespaceData, err error, pan any) {
	arg := fmt.Sprintf("ns=%s,row=%d", p.Name, row)
	judged := p.Requestable || c.ri.validated
	if err != nil {
		switch {
		case pan != nil && !judged:
			c.st.barePanics++
			c.note("rownd", arg, "unjudged-panic")
		case pan != nil:
			c.fail("rownd", "panic", arg, fmt.Sprintf("RowNamespaceData panicked: %v", pan))
		case p.Requestable && p.cover[row]:
			c.fail("rownd", "error", arg, fmt.Sprintf("row whose committed range contains the namespace not served: %v", err))
		default:
			c.note("rownd", arg, "err:"+c05Norm(err.Error(), 48))
		}
		return
	}
	if !judged {
		c.note("rownd", arg, "unjudged-data")
		return
	}
	var want []libshare.Share
	if row < c.W {
		pr := p.perRow[row]
		want = c.S.Row(row)[pr[0]:pr[1]]
	}
	if !c05SharesEq(rnd.Shares, want) {
		c.fail("rownd", "wrong-shares", arg, fmt.Sprintf("returned %s, the stored row holds %s for this namespace", c.describe(rnd.Shares), c.describe(want)))
		return
	}
	fp := newFP("rownd", row)
	fp.bytes(p.NS.Bytes())
	fp.shares(rnd.Shares)
	fp.proof(rnd.Proof)
	if verr := c.verify(fp.sum(), func() error { return rnd.Verify(c.roots, p.NS, row) }); verr != nil {
		c.fail("rownd", "not-verifying", arg, fmt.Sprintf("row namespace data does not verify: %v", verr))
		return
	}
	c.st.positive++
	if len(rnd.Shares) == 0 {
		c.note("rownd", arg, "ok/absence")
	} else {
		c.note("rownd", arg, "ok/inclusion")
	}
}

func (c *c05Ctx) opRowND(acc eds.AccessorStreamer) {
	// rows of the original square: every probe namespace; parity rows (which commit to the parity namespace
	// only): the first data namespace of the square, tail padding and parity.
	firstNS := c.nsForOOB()
	for _, pi := range c.seq(len(c.probes)) {
		p := &c.probes[pi]
		onParityRows := p.NS.Equals(firstNS) || p.Name == "TAIL" || p.Name == "PARITY"
		for _, row := range c.seq(c.N) {
			if row >= c.W && !onParityRows {
				continue
			}
			var rnd shwap.RowNamespaceData
			err, pan := c05Guard(func() (e error) { rnd, e = acc.RowNamespaceData(c.ctx, p.NS, row); return })
			c.judgeRowND(p, row, rnd, err, pan)
		}
	}
}

func (c *c05Ctx) judgeND(op string, p *c05Probe, nd shwap.NamespaceData, err error, pan any) {
	arg := "ns=" + p.Name
	judged := p.Requestable || c.ri.validated
	if err != nil {
		switch {
		case pan != nil && !judged:
			c.st.barePanics++
			c.note(op, arg, "unjudged-panic")
		case pan != nil:
			c.fail(op, "panic", arg, fmt.Sprintf("namespace data panicked: %v", pan))
		case p.Requestable:
			c.fail(op, "error", arg, fmt.Sprintf("namespace data not served: %v", err))
		default:
			c.note(op, arg, "err:"+c05Norm(err.Error(), 48))
		}
		return
	}
	if !judged {
		c.note(op, arg, "unjudged-data")
		return
	}
	if !c05SharesEq(nd.Flatten(), p.flat) {
		c.fail(op, "wrong-shares", arg, fmt.Sprintf("returned %s, the stored block holds %s for this namespace", c.describe(nd.Flatten()), c.describe(p.flat)))
		return
	}
	if len(nd) != p.nCover {
		c.fail(op, "wrong-rows", arg, fmt.Sprintf("%d row entries, %d rows of the stored block cover the namespace", len(nd), p.nCover))
		return
	}
	fp := newFP("nd", len(nd))
	fp.bytes(p.NS.Bytes())
	for i := range nd {
		fp.shares(nd[i].Shares)
		fp.proof(nd[i].Proof)
	}
	if verr := c.verify(fp.sum(), func() error { return nd.Verify(c.roots, p.NS) }); verr != nil {
		c.fail(op, "not-verifying", arg, fmt.Sprintf("namespace data does not verify: %v", verr))
		return
	}
	c.st.positive++
	c.st.nsClasses[c.S.Class(p.NS)]++
	if len(p.flat) == 0 {
		c.note(op, arg, fmt.Sprintf("ok/absent/rows=%d", len(nd)))
	} else {
		c.note(op, arg, "ok/present")
	}
}

func (c *c05Ctx) opND(acc eds.AccessorStreamer) {
	for _, pi := range c.seq(len(c.probes)) {
		p := &c.probes[pi]
		var nd shwap.NamespaceData
		err, pan := c05Guard(func() (e error) { nd, e = eds.NamespaceData(c.ctx, acc, p.NS); return })
		c.judgeND("nd", p, nd, err, pan)
	}
}

func (c *c05Ctx) judgeRange(op string, from, to int, rng shwap.RangeNamespaceData, err error, pan any) {
	arg := fmt.Sprintf("%d,%d", from, to)
	single := c.nsRun[from] == c.nsRun[to-1]
	if err != nil {
		switch {
		case pan != nil:
			c.fail(op, "panic", arg, fmt.Sprintf("range panicked: %v", pan))
		case single:
			c.fail(op, "error", arg, fmt.Sprintf("in-bounds range inside one namespace not served: %v", err))
		default:
			c.note(op, arg, "err:"+c05Norm(err.Error(), 40))
		}
		return
	}
	want := c.ods[from:to]
	if !c05SharesEq(rng.Flatten(), want) {
		c.fail(op, "wrong-shares", arg, fmt.Sprintf("returned %s, stored %s", c.describe(rng.Flatten()), c.describe(want)))
		return
	}
	fromC := shwap.SampleCoords{Row: from / c.W, Col: from % c.W}
	toC := shwap.SampleCoords{Row: (to - 1) / c.W, Col: (to - 1) % c.W}
	if len(rng.Shares) != toC.Row-fromC.Row+1 {
		c.fail(op, "wrong-shape", arg, fmt.Sprintf("%d rows in the answer, the range spans %d", len(rng.Shares), toC.Row-fromC.Row+1))
		return
	}
	for i, row := range rng.Shares {
		lo, hi := 0, c.W
		if i == 0 {
			lo = fromC.Col
		}
		if i == len(rng.Shares)-1 {
			hi = toC.Col + 1
		}
		if len(row) != hi-lo {
			c.fail(op, "wrong-shape", arg, fmt.Sprintf("row %d of the answer has %d shares, want %d", i, len(row), hi-lo))
			return
		}
	}
	fp := newFP("range", from, to, len(rng.Shares))
	for i := range rng.Shares {
		fp.shares(rng.Shares[i])
	}
	fp.proof(rng.FirstIncompleteRowProof)
	fp.proof(rng.LastIncompleteRowProof)
	verr := c.verify(fp.sum(), func() error {
		return rng.VerifyInclusion(fromC, toC, c.W, c.roots.RowRoots[fromC.Row:toC.Row+1])
	})
	if verr != nil {
		c.fail(op, "not-verifying", arg, fmt.Sprintf("range does not verify against the row roots: %v", verr))
		return
	}
	c.st.positive++
	if single {
		c.note(op, arg, "ok")
	} else {
		c.note(op, arg, "ok/multi-namespace")
	}
}

func (c *c05Ctx) opRanges(acc eds.AccessorStreamer) {
	n := c.W * c.W
	for _, from := range c.seq(n) {
		for _, k := range c.seq(n - from) {
			to := from + 1 + k
			var rng shwap.RangeNamespaceData
			err, pan := c05Guard(func() (e error) { rng, e = acc.RangeNamespaceData(c.ctx, from, to); return })
			c.judgeRange("range", from, to, rng, err, pan)
		}
	}
}

func (c *c05Ctx) opShares(acc eds.AccessorStreamer) {
	var shs []libshare.Share
	err, pan := c05Guard(func() (e error) { shs, e = acc.Shares(c.ctx); return })
	switch {
	case err != nil:
		mech := "error"
		if pan != nil {
			mech = "panic"
		}
		c.fail("shares", mech, "", fmt.Sprintf("Shares failed: %v", err))
	case !c05SharesEq(shs, c.ods):
		c.fail("shares", "wrong-shares", "", fmt.Sprintf("Shares returned %d shares %s, the stored original square is %s", len(shs), c.describe(shs), c.describe(c.ods)))
	default:
		c.st.positive++
		c.note("shares", "", "ok")
	}
}

// readChunked drains r with Read calls of exactly chunk bytes (0: io.ReadAll).
func readChunked(r io.Reader, chunk, limit int) ([]byte, error) {
	if chunk <= 0 {
		return io.ReadAll(io.LimitReader(r, int64(limit)))
	}
	var out []byte
	buf := make([]byte, chunk)
	idle := 0
	for len(out) <= limit {
		n, err := r.Read(buf)
		out = append(out, buf[:n]...)
		if err == io.EOF {
			return out, nil
		}
		if err != nil {
			return out, err
		}
		if n == 0 {
			idle++
			if idle > 64 {
				return out, errors.New("reader makes no progress (64 empty reads without EOF)")
			}
		} else {
			idle = 0
		}
	}
	return out, nil
}

func (c *c05Ctx) opReader(acc eds.AccessorStreamer) {
	limit := len(c.odsRaw) + 4*libshare.ShareSize
	tail := libshare.TailPaddingShare()
	for _, ci := range c.seq(len(c.chunks)) {
		chunk := c.chunks[ci]
		if chunk < 0 { // negative: only for squares up to width 2
			if c.W > 2 {
				continue
			}
			chunk = -chunk
		}
		arg := fmt.Sprintf("chunk=%d", chunk)
		var raw []byte
		err, pan := c05Guard(func() error {
			r, e := acc.Reader()
			if e != nil {
				return e
			}
			raw, e = readChunked(r, chunk, limit)
			return e
		})
		if err != nil {
			mech := "error"
			if pan != nil {
				mech = "panic"
			}
			c.fail("reader", mech, arg, fmt.Sprintf("streaming the original square failed: %v", err))
			continue
		}
		// the stream is the original square; trailing tail-padding shares may be left out (the consumer
		// eds.ReadShares substitutes them), nothing else.
		class := "full"
		switch {
		case len(raw) > len(c.odsRaw) || !bytes.Equal(raw, c.odsRaw[:len(raw)]):
			c.fail("reader", "wrong-bytes", arg, fmt.Sprintf("stream of %d bytes is not a prefix of the stored original square (%d bytes)", len(raw), len(c.odsRaw)))
			continue
		case len(raw) < len(c.odsRaw):
			if len(raw)%libshare.ShareSize != 0 {
				c.fail("reader", "torn-share", arg, fmt.Sprintf("stream ends inside a share (%d bytes)", len(raw)))
				continue
			}
			ok := true
			for i := len(raw) / libshare.ShareSize; i < len(c.ods); i++ {
				if !bytes.Equal(c.ods[i].ToBytes(), tail.ToBytes()) {
					ok = false
				}
			}
			if !ok {
				c.fail("reader", "truncated", arg, fmt.Sprintf("stream ends after %d of %d shares although the omitted ones are not all tail padding", len(raw)/libshare.ShareSize, len(c.ods)))
				continue
			}
			class = "tail-omitted"
		}
		// through the real consumer
		shs, derr := eds.ReadShares(bytes.NewReader(raw), libshare.ShareSize, c.W)
		if derr != nil || !c05SharesEq(shs, c.ods) {
			c.fail("reader", "decoded-differs", arg, fmt.Sprintf("eds.ReadShares over the stream does not give the stored original square (err=%v)", derr))
			continue
		}
		c.st.streams[class]++
		c.st.positive++
		c.note("reader", arg, "ok/"+class)
	}
	if c.pass == "cold" {
		// once per instance: the whole import path of a consumer (ReadAccessor recomputes the data hash)
		err, pan := c05Guard(func() error {
			r, e := acc.Reader()
			if e != nil {
				return e
			}
			got, e := eds.ReadAccessor(c.ctx, r, c.roots)
			if e != nil {
				return e
			}
			if !got.ExtendedDataSquare.Equals(c.S.EDS) {
				return errors.New("imported square differs from the stored one")
			}
			return nil
		})
		if err != nil {
			mech := "import-fails"
			if pan != nil {
				mech = "panic"
			}
			c.fail("reader", mech, "ReadAccessor", fmt.Sprintf("eds.ReadAccessor over the stream: %v", err))
		} else {
			c.st.positive++
			c.note("reader", "ReadAccessor", "ok")
		}
	}
}

// ---------------------------------------------------------------- out-of-bounds arguments

func (c *c05Ctx) oobIdx() []int {
	return []int{-1, c.N, c.N + 1, 2 * c.N, 1 << 16, math.MaxInt32 + 1, math.MaxInt64, math.MinInt64}
}

func (c *c05Ctx) oobRanges() [][2]int {
	n := c.W * c.W
	return [][2]int{{-1, 1}, {-1, -1}, {0, 0}, {0, -1}, {1, 1}, {2, 1}, {n, n}, {n - 1, n + 1}, {0, n + 1}, {n, n + 1}, {n + 1, n + 2},
		{0, 2 * n}, {0, 4 * n}, {0, math.MaxInt64}, {math.MinInt64, 1}, {n, 0}}
}

// judgeOOB: an out-of-bounds argument must come back as an error: no data, no panic. (Whether the
// validating layer or a layer below it refuses is not observable to a caller: arguments that got past the
// validating layer are only counted.)
func (c *c05Ctx) judgeOOB(op, arg string, err error, pan any) {
	c.st.oobProbes++
	if c.ri.spy != nil {
		c.st.oobLeaks += int64(c.ri.spy.take())
	}
	switch {
	case pan != nil:
		c.fail(op, "oob-panic", arg, fmt.Sprintf("out-of-bounds argument made the accessor panic: %v", pan))
	case err == nil:
		c.fail(op, "oob-served", arg, "out-of-bounds argument was served data instead of being rejected")
	default:
		c.st.oobRejected++
		c.note(op, arg, "rejected:"+c05Norm(err.Error(), 56))
	}
}

func (c *c05Ctx) nsForOOB() libshare.Namespace {
	for i := range c.ods {
		if ns := c.ods[i].Namespace(); ns.ValidateForData() == nil {
			return ns
		}
	}
	return sq.A.Namespace()
}

func (c *c05Ctx) opOOB(acc eds.AccessorStreamer) {
	// once per instance: last operation group of the forward order (size already cached by the validating
	// layer), first of the reverse order (nothing cached yet)
	if !c.ri.validated || c.pass != "cold" {
		return
	}
	if c.ri.spy != nil {
		c.ri.spy.take()
	}
	bad := c.oobIdx()
	for _, bi := range c.seq(len(bad)) {
		b := bad[bi]
		for _, co := range []shwap.SampleCoords{{Row: b, Col: 0}, {Row: 0, Col: b}, {Row: b, Col: b}, {Row: c.N - 1, Col: b}, {Row: b, Col: c.N - 1}} {
			err, pan := c05Guard(func() (e error) { _, e = acc.Sample(c.ctx, co); return })
			c.judgeOOB("sample-oob", fmt.Sprintf("%d,%d", co.Row, co.Col), err, pan)
		}
		for _, axis := range []rsmt2d.Axis{rsmt2d.Row, rsmt2d.Col} {
			err, pan := c05Guard(func() (e error) { _, e = acc.AxisHalf(c.ctx, axis, b); return })
			c.judgeOOB("axishalf-oob", fmt.Sprintf("axis=%d,idx=%d", axis, b), err, pan)
		}
		ns := c.nsForOOB()
		err, pan := c05Guard(func() (e error) { _, e = acc.RowNamespaceData(c.ctx, ns, b); return })
		c.judgeOOB("rownd-oob", fmt.Sprintf("row=%d", b), err, pan)
	}
	rs := c.oobRanges()
	for _, i := range c.seq(len(rs)) {
		r := rs[i]
		if r[0] >= 0 && r[0] < r[1] && r[1] <= c.W*c.W {
			continue // in bounds for this width
		}
		err, pan := c05Guard(func() (e error) { _, e = acc.RangeNamespaceData(c.ctx, r[0], r[1]); return })
		c.judgeOOB("range-oob", fmt.Sprintf("%d,%d", r[0], r[1]), err, pan)
	}
}

// c05Spy sits directly below a validating layer and counts the out-of-bounds arguments that get there
// (a pure observer: every call is forwarded).
type c05Spy struct {
	eds.AccessorStreamer
	n      int
	leaked int
}

func (s *c05Spy) take() int {
	n := s.leaked
	s.leaked = 0
	return n
}

func (s *c05Spy) Sample(ctx context.Context, idx shwap.SampleCoords) (shwap.Sample, error) {
	if idx.Row < 0 || idx.Row >= s.n || idx.Col < 0 || idx.Col >= s.n {
		s.leaked++
	}
	return s.AccessorStreamer.Sample(ctx, idx)
}

func (s *c05Spy) AxisHalf(ctx context.Context, axis rsmt2d.Axis, idx int) (shwap.AxisHalf, error) {
	if idx < 0 || idx >= s.n {
		s.leaked++
	}
	return s.AccessorStreamer.AxisHalf(ctx, axis, idx)
}

func (s *c05Spy) RowNamespaceData(ctx context.Context, ns libshare.Namespace, row int) (shwap.RowNamespaceData, error) {
	if row < 0 || row >= s.n {
		s.leaked++
	}
	return s.AccessorStreamer.RowNamespaceData(ctx, ns, row)
}

func (s *c05Spy) RangeNamespaceData(ctx context.Context, from, to int) (shwap.RangeNamespaceData, error) {
	if from < 0 || from >= to || to > s.n*s.n/4 {
		s.leaked++
	}
	return s.AccessorStreamer.RangeNamespaceData(ctx, from, to)
}

// ---------------------------------------------------------------- the pass over store.Getter

func (c *c05Ctx) passGetter(ri *c05Rep, g *Getter, height uint64, pass string) {
	c.ri, c.pass = ri, pass
	hdr := &header.ExtendedHeader{DAH: c.roots}
	hdr.RawHeader.Height = int64(height)
	groups := []func(){
		func() { // all coordinates in one call, then one by one
			var coords []shwap.SampleCoords
			for _, r := range c.seq(c.N) {
				for _, col := range c.seq(c.N) {
					coords = append(coords, shwap.SampleCoords{Row: r, Col: col})
				}
			}
			var out []shwap.Sample
			err, pan := c05Guard(func() (e error) { out, e = g.GetSamples(c.ctx, hdr, coords); return })
			if err == nil && len(out) != len(coords) {
				err = fmt.Errorf("%d samples for %d coordinates", len(out), len(coords))
			}
			if err != nil {
				c.judgeSample("getter-samples", "all", 0, 0, shwap.Sample{}, err, pan)
			} else {
				for i, co := range coords {
					c.judgeSample("getter-samples", fmt.Sprintf("%d,%d", co.Row, co.Col), co.Row, co.Col, out[i], nil, nil)
				}
			}
			for _, b := range c.oobIdx() {
				for _, co := range []shwap.SampleCoords{{Row: b, Col: 0}, {Row: 0, Col: b}} {
					err, pan := c05Guard(func() (e error) {
						_, e = g.GetSamples(c.ctx, hdr, []shwap.SampleCoords{{Row: 0, Col: 0}, co})
						return
					})
					c.judgeOOB("getter-samples-oob", fmt.Sprintf("%d,%d", co.Row, co.Col), err, pan)
				}
			}
		},
		func() {
			for _, idx := range c.seq(c.N) {
				arg := fmt.Sprintf("row=%d", idx)
				var row shwap.Row
				err, pan := c05Guard(func() (e error) { row, e = g.GetRow(c.ctx, hdr, idx); return })
				if err != nil {
					mech := "error"
					if pan != nil {
						mech = "panic"
					}
					c.fail("getter-row", mech, arg, fmt.Sprintf("row not served: %v", err))
					continue
				}
				verr, _ := c05Guard(func() error {
					if e := row.Verify(c.roots, idx); e != nil {
						return e
					}
					full, e := row.Shares()
					if e != nil {
						return e
					}
					if !c05SharesEq(full, c.S.Row(idx)) {
						return errors.New("row differs from the stored row")
					}
					return nil
				})
				c.st.verifierReal++
				if verr != nil {
					c.fail("getter-row", "wrong-or-not-verifying", arg, verr.Error())
					continue
				}
				c.st.positive++
				c.note("getter-row", arg, "ok")
			}
			for _, b := range c.oobIdx() {
				err, pan := c05Guard(func() (e error) { _, e = g.GetRow(c.ctx, hdr, b); return })
				c.judgeOOB("getter-row-oob", fmt.Sprintf("row=%d", b), err, pan)
			}
		},
		func() {
			for _, pi := range c.seq(len(c.probes)) {
				p := &c.probes[pi]
				var nd shwap.NamespaceData
				err, pan := c05Guard(func() (e error) { nd, e = g.GetNamespaceData(c.ctx, hdr, p.NS); return })
				c.judgeND("getter-nd", p, nd, err, pan)
			}
		},
		func() {
			n := c.W * c.W
			for _, from := range c.seq(n) {
				for _, k := range c.seq(n - from) {
					to := from + 1 + k
					var rng shwap.RangeNamespaceData
					err, pan := c05Guard(func() (e error) { rng, e = g.GetRangeNamespaceData(c.ctx, hdr, from, to); return })
					c.judgeRange("getter-range", from, to, rng, err, pan)
				}
			}
			for _, r := range c.oobRanges() {
				if r[0] >= 0 && r[0] < r[1] && r[1] <= n {
					continue
				}
				err, pan := c05Guard(func() (e error) { _, e = g.GetRangeNamespaceData(c.ctx, hdr, r[0], r[1]); return })
				c.judgeOOB("getter-range-oob", fmt.Sprintf("%d,%d", r[0], r[1]), err, pan)
			}
		},
		func() {
			var sqr *rsmt2d.ExtendedDataSquare
			err, pan := c05Guard(func() (e error) { sqr, e = g.GetEDS(c.ctx, hdr); return })
			switch {
			case err != nil:
				mech := "error"
				if pan != nil {
					mech = "panic"
				}
				c.fail("getter-eds", mech, "", fmt.Sprintf("GetEDS failed: %v", err))
			case sqr == nil || !sqr.Equals(c.S.EDS):
				c.fail("getter-eds", "wrong-square", "", "GetEDS returned a square different from the stored one")
			default:
				c.st.positive++
				c.note("getter-eds", "", "ok")
			}
		},
	}
	for _, i := range c.seq(len(groups)) {
		groups[i]()
	}
}
