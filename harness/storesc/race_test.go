package store

// Free-running pass of the C08 scenarios under the race detector (thorough tier; run by
// bin/check before the schedule search). No scheduler is active, so the shims pass through to
// the real sync primitives and the Go race detector sees every unsynchronised access. It is an
// assumption check of the schedule search ("scheduling points at lock/atomic operations are
// sufficient"), not the deciding step.

import (
	"fmt"
	"os"
	"strings"
	"sync"
	"testing"

	logging "github.com/ipfs/go-log/v2"
)

func TestVerifC08Race(t *testing.T) {
	logging.SetAllLoggers(logging.LevelFatal)
	if err := scBuildSquares(); err != nil {
		t.Fatalf("harness: %v", err)
	}
	tmp := os.Getenv("VERIF_TMP")
	if tmp == "" {
		tmp = t.TempDir()
	}
	iters := 0
	for _, sc := range scScenarios("thorough") {
		for it := 0; it < 60; it++ {
			dir, err := os.MkdirTemp(tmp, "c08r-")
			if err != nil {
				t.Fatal(err)
			}
			st, err := NewStore(&Parameters{RecentBlocksCacheSize: sc.CacheSize}, dir)
			if err != nil {
				t.Fatal(err)
			}
			var cs *CachedStore
			if sc.Extra > 0 {
				if cs, err = st.WithCache("verif", sc.Extra); err != nil {
					t.Fatal(err)
				}
			}
			init := &scThreadState{}
			for _, o := range sc.Init {
				scDo(st, cs, init, o)
			}
			var wg sync.WaitGroup
			bad := make(chan string, 16)
			for ti, script := range sc.Threads {
				wg.Add(1)
				go func(ti int, script []scOp) {
					defer wg.Done()
					ts := &scThreadState{}
					for _, o := range script {
						ret := scDo(st, cs, ts, o)
						if strings.HasPrefix(ret, "wrong:") || strings.HasPrefix(ret, "err:") {
							select {
							case bad <- fmt.Sprintf("%s T%d %v -> %s", sc.Name, ti, o, ret):
							default:
							}
						}
					}
					if ts.acc != nil {
						_ = ts.acc.Close()
					}
				}(ti, script)
			}
			wg.Wait()
			close(bad)
			for b := range bad {
				t.Errorf("free-running pass: %s", b)
			}
			_ = os.RemoveAll(dir)
			iters++
		}
	}
	fmt.Printf("VERIF-RACE-PASS iterations=%d\n", iters)
}
