package store

// C08: concurrent store use is safe - no torn reads, no deadlock, no use-after-close.
//
// SC layer (DESIGN.md §3.3): `sync`/`sync/atomic` of store/, store/cache/, store/file/ and
// share/eds/ are import-rewritten to the cooperative scheduler's shims, so every striped-lock,
// cache-entry lock, reference counter, lazy-Q4 flag and proof-cache lock operation of the
// REAL store is a scheduling point. For each scenario (2-3 threads with short scripts over
// heights that collide on lock stripes and cache slots) every interleaving within the
// preemption bound is executed on a real directory (tmpfs). Oracles:
//   - every read through an accessor a reader obtained returns exactly the block's data until
//     the reader closes it (no error, no foreign or padded data)
//   - no deadlock, every operation returns
//   - the final directory content and what the store says it holds, together with the results of
//     the mutating operations, equal those of SOME sequential order of the operations that
//     respects the real-time order of the mutating operations (reference: the real store, same
//     scheduler in atomic-operation mode)
//   - after quiescence no file is open for a block that was removed or is no longer cached

import (
	"bytes"
	"context"
	"encoding/json"
	"errors"
	"fmt"
	"os"
	"os/exec"
	"path/filepath"
	"runtime"
	"runtime/debug"
	"sort"
	"strconv"
	"strings"
	"sync"
	"testing"
	"testing/synctest"
	"time"

	logging "github.com/ipfs/go-log/v2"

	"github.com/celestiaorg/celestia-node/share"
	"github.com/celestiaorg/celestia-node/share/eds"
	"github.com/celestiaorg/celestia-node/share/shwap"
	"github.com/celestiaorg/celestia-node/verifx/sq"
	"github.com/celestiaorg/celestia-node/verifx/vos"
	"github.com/celestiaorg/celestia-node/verifx/vsched"
	"github.com/celestiaorg/celestia-node/verifx/vx"
)

type scOp struct {
	K  string `json:"k"`            // putq4 putods get read close has remove removeq4 cget
	H  uint64 `json:"h,omitempty"`  // height
	Sq string `json:"sq,omitempty"` // square key
}

type scScenario struct {
	Name      string   `json:"name"`
	CacheSize int      `json:"cache"`
	Extra     int      `json:"extra_cache"` // >0: WithCache(extra) and cget allowed
	Init      []scOp   `json:"init"`
	Threads   [][]scOp `json:"threads"`
	// FailKind: the first file-system effect of this kind ("link", "create", "write") issued by the
	// threads fails with an injected I/O error (the put's failure clean-up then runs)
	FailKind string `json:"fail_kind,omitempty"`
}

type scRec struct {
	key       string
	ret       string
	call, end int
	done      bool
}

var scSquares map[string]*sq.Square

// scBuildSquares: A and B are different w=2 squares whose data hashes collide on the hash
// lock stripe (last two bytes mod 1024); heights 7 and 7+1024 collide on the height stripe.
func scBuildSquares() error {
	if scSquares != nil {
		return nil
	}
	scSquares = map[string]*sq.Square{}
	stripe := func(s *sq.Square) uint16 {
		h := s.DAH.Hash()
		return (uint16(h[len(h)-1]) | uint16(h[len(h)-2])<<8) % 1024
	}
	// birthday search over (layout, variant) candidates, in a fixed order
	seen := map[uint16]*sq.Square{}
	for _, l := range sq.MustParse("w2:A2,B1,TAIL1", "w2:A1,B2,TAIL1", "w2:A3,TAIL1", "w2:A1,B1,C1,TAIL1", "w2:A2,B2", "w2:A1,B3", "w2:A3,B1", "w2:B3,TAIL1") {
		for v := 0; v < 256; v++ {
			c, err := sq.Build(l, v)
			if err != nil {
				return err
			}
			k := stripe(c)
			if prev, ok := seen[k]; ok && !bytes.Equal(prev.DAH.Hash(), c.DAH.Hash()) {
				scSquares["A"], scSquares["B"] = prev, c
				// E: the empty block (never written per height, only linked; removal takes a shorter path)
				el := sq.MustParse("w1:TAIL1")
				es, err := sq.Build(el[0], 0)
				if err != nil {
					return err
				}
				if !bytes.Equal(es.DAH.Hash(), share.EmptyEDSDataHash()) {
					return errors.New("harness: w1:TAIL1 is not the empty block")
				}
				scSquares["E"] = es
				return nil
			}
			seen[k] = c
		}
	}
	return errors.New("no colliding square found")
}

type scThreadState struct {
	acc eds.AccessorStreamer
	sq  string
}

type scExec struct {
	recs    []*scRec
	err     error
	final   string
	res     vsched.Result
	trace   []string
	readBad string
}

func scReadCheck(acc eds.AccessorStreamer, s *sq.Square) (ret string) {
	defer func() {
		if x := recover(); x != nil {
			ret = fmt.Sprintf("panic:%v", x)
		}
	}()
	ctx := context.Background()
	n := s.N
	for _, rc := range [][2]int{{0, 0}, {n - 1, n - 1}, {0, n - 1}} {
		smp, err := acc.Sample(ctx, shwap.SampleCoords{Row: rc[0], Col: rc[1]})
		if err != nil {
			return fmt.Sprintf("err:Sample(%d,%d):%v", rc[0], rc[1], err)
		}
		want := s.Cell(rc[0], rc[1])
		if !bytes.Equal(smp.Share.ToBytes(), want.ToBytes()) {
			return fmt.Sprintf("wrong:Sample(%d,%d)", rc[0], rc[1])
		}
	}
	shs, err := acc.Shares(ctx)
	if err != nil {
		return "err:Shares:" + err.Error()
	}
	ods := s.ODS()
	if len(shs) != len(ods) {
		return fmt.Sprintf("wrong:Shares:len=%d", len(shs))
	}
	for i := range shs {
		if !bytes.Equal(shs[i].ToBytes(), ods[i].ToBytes()) {
			return fmt.Sprintf("wrong:Shares[%d]", i)
		}
	}
	roots, err := acc.AxisRoots(ctx)
	if err != nil {
		return "err:AxisRoots:" + err.Error()
	}
	// compared root by root: DataAvailabilityHeader.Equals/Hash memoise the hash inside the object
	// without synchronisation, and both the reference and a cached accessor's roots are shared
	if len(roots.RowRoots) != len(s.DAH.RowRoots) || len(roots.ColumnRoots) != len(s.DAH.ColumnRoots) {
		return "wrong:AxisRoots"
	}
	for i := range roots.RowRoots {
		if !bytes.Equal(roots.RowRoots[i], s.DAH.RowRoots[i]) || !bytes.Equal(roots.ColumnRoots[i], s.DAH.ColumnRoots[i]) {
			return "wrong:AxisRoots"
		}
	}
	return "ok"
}

// scErrClass: error texts carry the per-execution temp directory; only success/failure (and
// whether the failure is the injected fault) is compared between executions.
func scErrClass(err error) string {
	switch {
	case err == nil:
		return "<nil>"
	case errors.Is(err, vos.ErrInjected):
		return "failed:injected-fault"
	default:
		return "failed"
	}
}

func scDo(st *Store, cs *CachedStore, ts *scThreadState, op scOp) string {
	ctx := context.Background()
	switch op.K {
	case "putq4":
		s := scSquares[op.Sq]
		return scErrClass(st.PutODSQ4(ctx, s.DAH, op.H, s.EDS))
	case "putods":
		s := scSquares[op.Sq]
		return scErrClass(st.PutODS(ctx, s.DAH, op.H, s.EDS))
	case "get", "cget":
		var acc eds.AccessorStreamer
		var err error
		if op.K == "cget" {
			acc, err = cs.GetByHeight(ctx, op.H)
		} else {
			acc, err = st.GetByHeight(ctx, op.H)
		}
		if err != nil {
			if errors.Is(err, ErrNotFound) {
				return "notfound"
			}
			return "err:" + err.Error()
		}
		// which block is it? (two different squares may be stored under colliding heights)
		dh, err := acc.DataHash(ctx)
		if err != nil {
			_ = acc.Close()
			return "err:DataHash:" + err.Error()
		}
		ts.acc = acc
		ts.sq = ""
		for k, s := range scSquares {
			if bytes.Equal(dh, s.DAH.Hash()) {
				ts.sq = k
			}
		}
		return "got:" + ts.sq
	case "read":
		if ts.acc == nil {
			return "noacc"
		}
		if ts.sq == "" {
			return "wrong:unknown-datahash"
		}
		return scReadCheck(ts.acc, scSquares[ts.sq])
	case "close":
		if ts.acc == nil {
			return "noacc"
		}
		err := ts.acc.Close()
		ts.acc = nil
		return fmt.Sprint(err)
	case "geth":
		acc, err := st.GetByHash(ctx, share.DataHash(scSquares[op.Sq].DAH.Hash()))
		if err != nil {
			if errors.Is(err, ErrNotFound) {
				return "notfound"
			}
			return "err:" + err.Error()
		}
		ts.acc, ts.sq = acc, op.Sq
		return "got:" + op.Sq
	case "hash":
		ok, err := st.HasByHash(ctx, share.DataHash(scSquares[op.Sq].DAH.Hash()))
		if err != nil {
			return "err:" + err.Error()
		}
		return fmt.Sprint(ok)
	case "has":
		ok, err := st.HasByHeight(ctx, op.H)
		if err != nil {
			return "err:" + err.Error()
		}
		return fmt.Sprint(ok)
	case "remove":
		return scErrClass(st.RemoveODSQ4(ctx, op.H, share.DataHash(scSquares[op.Sq].DAH.Hash())))
	case "removeq4":
		return scErrClass(st.RemoveQ4(ctx, op.H, share.DataHash(scSquares[op.Sq].DAH.Hash())))
	}
	panic("unknown op " + op.K)
}

func scDirState(dir string, st *Store, heights []uint64) string {
	var items []string
	_ = filepath.Walk(filepath.Join(dir, blocksPath), func(p string, info os.FileInfo, err error) error {
		if err != nil || info.IsDir() {
			return nil
		}
		rel := strings.TrimPrefix(p, dir)
		if strings.Contains(rel, share.EmptyEDSDataHash().String()) {
			return nil
		}
		items = append(items, fmt.Sprintf("%s:%d", rel, info.Size()))
		return nil
	})
	sort.Strings(items)
	// what the store says it holds (cache membership itself is not content: it only matters through
	// what HasByHeight/GetByHeight answer)
	for _, h := range heights {
		ok, err := st.HasByHeight(context.Background(), h)
		items = append(items, fmt.Sprintf("has(%d)=%v,%v", h, ok, err))
	}
	return strings.Join(items, " ")
}

var scGCCounter int

// scCollect runs the garbage collector and waits until every pending finalizer has run, while
// no scheduler is active (finalizers of cache.refCloser end in shimmed atomics).
func scCollect() {
	scGCCounter++
	if scGCCounter%40 != 0 {
		return
	}
	type sentinel struct{ _ [16]byte }
	done := make(chan struct{})
	s := &sentinel{}
	runtime.SetFinalizer(s, func(*sentinel) { close(done) })
	s = nil
	for i := 0; i < 3; i++ {
		runtime.GC()
		select {
		case <-done:
			return
		case <-time.After(200 * time.Millisecond):
		}
	}
}

func scRun(t *testing.T, tmp string, sc scScenario, e *vx.Exec, keepTrace, atomicOps bool) (r scExec) {
	scCollect()
	dir, err := os.MkdirTemp(tmp, "c08-")
	if err != nil {
		r.err = fmt.Errorf("harness: %v", err)
		return r
	}
	defer os.RemoveAll(dir)
	heights := map[uint64]bool{}
	for _, o := range sc.Init {
		heights[o.H] = true
	}
	for _, th := range sc.Threads {
		for _, o := range th {
			if o.H != 0 {
				heights[o.H] = true
			}
		}
	}
	hs := vx.SortedKeys(heights)
	var leaked any
	// a goroutine blocked on an un-hooked real mutex (golang-lru) or spinning would hang the
	// scheduler's quiescence wait forever; executions take milliseconds
	wd := time.AfterFunc(180*time.Second, func() {
		fmt.Printf("VIOLATION property=C08 replay=none\n  signature: C08/no-quiescence\n  what: scenario %s choices %v did not become quiescent within 180 s of real time\n", sc.Name, e.Choices)
		os.Exit(1)
	})
	defer wd.Stop()
	func() {
		defer func() { leaked = recover() }()
		synctest.Test(t, func(*testing.T) {
			st, err := NewStore(&Parameters{RecentBlocksCacheSize: sc.CacheSize}, dir)
			if err != nil {
				r.err = fmt.Errorf("harness: NewStore: %v", err)
				return
			}
			var cs *CachedStore
			if sc.Extra > 0 {
				cs, err = st.WithCache("verif", sc.Extra)
				if err != nil {
					r.err = fmt.Errorf("harness: WithCache: %v", err)
					return
				}
			}
			init := &scThreadState{}
			for _, o := range sc.Init {
				if ret := scDo(st, cs, init, o); ret != "<nil>" {
					r.err = fmt.Errorf("harness: init op %v: %s", o, ret)
					return
				}
			}
			sess := vos.Begin(dir, nil)
			defer sess.End()
			if sc.FailKind != "" {
				fired := false
				sess.Fail = func(_ int, kind, _ string) error {
					if !fired && kind == sc.FailKind {
						fired = true
						return vos.ErrInjected
					}
					return nil
				}
			}
			s := vsched.New(e.ChooseCost)
			s.KeepTrace = keepTrace
			s.AtomicOps = atomicOps
			s.MaxSteps = 6000
			states := make([]*scThreadState, len(sc.Threads))
			for ti, script := range sc.Threads {
				ti, script := ti, script
				states[ti] = &scThreadState{}
				s.Go(fmt.Sprintf("T%d", ti), func() {
					for oi, o := range script {
						if atomicOps {
							vsched.Yield("op")
						}
						rec := &scRec{key: fmt.Sprintf("T%d.%d", ti, oi), call: s.Steps}
						s.Update(func() { r.recs = append(r.recs, rec) })
						func() {
							defer func() {
								if x := recover(); x != nil {
									rec.ret = fmt.Sprintf("panic:%v", x)
								}
							}()
							rec.ret = scDo(st, cs, states[ti], o)
						}()
						rec.end = s.Steps
						rec.done = true
					}
				})
			}
			r.res = s.Run()
			synctest.Wait()
			r.trace = s.Trace
			// a script may end while still holding an accessor only if it says so; close leftovers
			for _, ts := range states {
				if ts.acc != nil {
					_ = ts.acc.Close()
					ts.acc = nil
				}
			}
			synctest.Wait()
			if r.res.Deadlock || r.res.Horizon {
				return
			}
			r.final = scDirState(dir, st, hs)
			// files still open after every reader closed: only what cache entries legitimately hold -
			// per cached (height, cache layer) pair at most one handle per path
			pairs := map[uint64]int{}
			total := 0
			layers := []interface{ Has(uint64) bool }{st.cache}
			if cs != nil {
				layers = []interface{ Has(uint64) bool }{cs.combinedCache.First(), cs.combinedCache.Second()}
			}
			for _, h := range hs {
				for _, l := range layers {
					if l.Has(h) {
						pairs[h]++
						total++
					}
				}
			}
			openCount := map[string]int{}
			for _, p := range sess.OpenFiles() {
				openCount[p]++
			}
			for p, n := range openCount {
				allowed := total // a q4 file is named by hash: any cached pair of that hash may hold it
				for _, h := range hs {
					if strings.HasSuffix(p, fmt.Sprintf("/heights/%d.ods", h)) {
						allowed = pairs[h]
					}
				}
				if n > allowed {
					r.err = fmt.Errorf("C08/file-left-open: %s has %d open handle(s) after every reader closed, but only %d cache entr(y/ies) may hold it (final: %s)", p, n, allowed, r.final)
					return
				}
			}
		})
	}()
	if r.res.Deadlock {
		ks := r.res.Cycle
		if len(ks) == 0 {
			ks = []string{"no-cycle"}
		}
		r.err = fmt.Errorf("C08/deadlock/%s: %s", strings.Join(ks, "+"), r.res.Stuck)
		return r
	}
	if r.res.Horizon {
		r.err = fmt.Errorf("C08/no-termination: step horizon %d reached", 6000)
		return r
	}
	if leaked != nil && r.err == nil {
		r.err = fmt.Errorf("harness: bubble did not end cleanly: %v", leaked)
	}
	if r.err == nil {
		for _, rec := range r.recs {
			if !rec.done {
				r.err = fmt.Errorf("C08/op-did-not-return: %s", rec.key)
				return r
			}
			if strings.HasPrefix(rec.ret, "panic:") {
				r.err = fmt.Errorf("C08/panic: operation %s panicked: %s", rec.key, rec.ret)
				return r
			}
			if strings.HasPrefix(rec.ret, "wrong:") {
				r.err = fmt.Errorf("C08/torn-read/%s: operation %s through an accessor the reader still holds returned %s", strings.SplitN(rec.ret, ":", 3)[1], rec.key, rec.ret)
				return r
			}
			if strings.HasPrefix(rec.ret, "err:") && strings.HasSuffix(rec.key, "") {
				// a read through a held accessor must not fail (no force-close timeout in the alphabet);
				// get/has errors other than not-found are failures as well
				r.err = fmt.Errorf("C08/read-error: operation %s returned %s", rec.key, rec.ret)
				return r
			}
		}
	}
	return r
}

type scSeq struct {
	order []string
	rets  map[string]string
	final string
}

func scSeqOutcomes(t *testing.T, tmp string, sc scScenario) ([]scSeq, error) {
	var out []scSeq
	var ferr error
	seen := map[string]bool{}
	vx.DFS(vx.DFSOpts{Bound: 1 << 30}, func(e *vx.Exec) (string, error) {
		r := scRun(t, tmp, sc, e, false, true)
		if r.err != nil {
			return "ERR", r.err
		}
		o := scSeq{rets: map[string]string{}, final: r.final}
		recs := append([]*scRec(nil), r.recs...)
		sort.SliceStable(recs, func(i, j int) bool { return recs[i].call < recs[j].call })
		for _, rec := range recs {
			o.order = append(o.order, rec.key)
			o.rets[rec.key] = rec.ret
		}
		key := fmt.Sprint(o.order, o.rets, o.final)
		if !seen[key] {
			seen[key] = true
			out = append(out, o)
		}
		return key, nil
	}, func(e *vx.Exec, err error) {
		if ferr == nil {
			ferr = err
		}
	})
	return out, ferr
}

// scMutating: operations that change the store's content. The property demands that the final
// content equals the result of the operations in some sequential order and that reads return
// correct data; it does not demand that what HasByHeight/GetByHeight answered in between is
// linearisable (put deliberately publishes a block to the cache before it is durable), so only
// the results and the real-time order of the mutating operations are matched.
func scMutating(ret string, key string, sc scScenario) bool {
	var ti, oi int
	fmt.Sscanf(key, "T%d.%d", &ti, &oi)
	switch sc.Threads[ti][oi].K {
	case "putq4", "putods", "remove", "removeq4":
		return true
	}
	return false
}

func scLinearisable(sc scScenario, r scExec, seqs []scSeq) bool {
	recOf := map[string]*scRec{}
	for _, rec := range r.recs {
		if scMutating(rec.ret, rec.key, sc) {
			recOf[rec.key] = rec
		}
	}
	for _, so := range seqs {
		if so.final != r.final {
			continue
		}
		ok := true
		for k, rec := range recOf {
			if so.rets[k] != rec.ret {
				ok = false
				break
			}
		}
		if !ok {
			continue
		}
		pos := map[string]int{}
		for i, k := range so.order {
			pos[k] = i
		}
		for a, ra := range recOf {
			for b, rb := range recOf {
				if a != b && ra.end < rb.call && pos[a] > pos[b] {
					ok = false
				}
			}
		}
		if ok {
			return true
		}
	}
	return false
}

func scScenarios(tier string) []scScenario {
	const h, h2 = uint64(7), uint64(7 + 1024) // same height stripe, same cache stripe? (7+1024)%256 = 7: yes
	O := func(k string, hh uint64, s string) scOp { return scOp{K: k, H: hh, Sq: s} }
	rd := func(hh uint64) []scOp { return []scOp{O("get", hh, ""), O("read", 0, ""), O("close", 0, "")} }
	sc := []scScenario{
		{Name: "put-vs-reader", CacheSize: 1,
			Threads: [][]scOp{{O("putq4", h, "A")}, rd(h)}},
		{Name: "remove-vs-reader", CacheSize: 1, Init: []scOp{O("putq4", h, "A")},
			Threads: [][]scOp{{O("remove", h, "A")}, rd(h)}},
		{Name: "removeq4-vs-reader-nocache", CacheSize: 0, Init: []scOp{O("putq4", h, "A")},
			Threads: [][]scOp{{O("removeq4", h, "A")}, rd(h)}},
		{Name: "evict-vs-reader", CacheSize: 1, Init: []scOp{O("putq4", h, "A")},
			Threads: [][]scOp{{O("putq4", h2, "B")}, rd(h)}},
		{Name: "cached-two-readers-lazy-q4", CacheSize: 0, Extra: 1, Init: []scOp{O("putq4", h, "A")},
			Threads: [][]scOp{{O("cget", h, ""), O("read", 0, ""), O("close", 0, "")}, {O("cget", h, ""), O("read", 0, ""), O("close", 0, "")}}},
		{Name: "cached-miss-vs-remove", CacheSize: 0, Extra: 1, Init: []scOp{O("putq4", h, "A")},
			Threads: [][]scOp{{O("cget", h, ""), O("read", 0, ""), O("close", 0, "")}, {O("remove", h, "A")}}},
		{Name: "cached-miss-vs-remove-colliding-height", CacheSize: 0, Extra: 1, Init: []scOp{O("putq4", h, "A"), O("putq4", h2, "B")},
			Threads: [][]scOp{{O("cget", h2, ""), O("read", 0, ""), O("close", 0, "")}, {O("remove", h, "A")}}},
		{Name: "put-flavours-same-height", CacheSize: 1,
			Threads: [][]scOp{{O("putods", h, "A")}, {O("putq4", h, "A")}, {O("has", h, ""), O("hash", 0, "A")}}},
		{Name: "get-by-hash-vs-remove", CacheSize: 1, Init: []scOp{O("putq4", h, "A")},
			Threads: [][]scOp{{O("geth", 0, "A"), O("read", 0, ""), O("close", 0, "")}, {O("remove", h, "A")}}},
		{Name: "failed-put-vs-reader", CacheSize: 1, FailKind: "link",
			Threads: [][]scOp{{O("putq4", h, "A")}, rd(h)}},
		{Name: "cached-empty-remove-vs-two-readers", CacheSize: 1, Extra: 1, Init: []scOp{O("putq4", h, "E")},
			Threads: [][]scOp{{O("cget", h, ""), O("read", 0, ""), O("close", 0, "")}, {O("remove", h, "E"), O("has", h, "")}, {O("cget", h, ""), O("close", 0, "")}}},
		{Name: "cached-remove-vs-two-readers", CacheSize: 1, Extra: 1, Init: []scOp{O("putq4", h, "A")},
			Threads: [][]scOp{{O("cget", h, ""), O("close", 0, "")}, {O("remove", h, "A"), O("has", h, "")}, {O("cget", h, ""), O("close", 0, "")}}},
		{Name: "put-vs-remove-same-block", CacheSize: 1,
			Threads: [][]scOp{{O("putq4", h, "A")}, {O("remove", h, "A"), O("has", h, "")}}},
		{Name: "put-remove-collide", CacheSize: 1, Init: []scOp{O("putq4", h, "A")},
			Threads: [][]scOp{{O("putq4", h2, "B"), O("has", h, "")}, {O("remove", h, "A"), O("has", h2, "")}}},
	}
	if tier == "thorough" {
		sc = append(sc,
			scScenario{Name: "two-readers-lazy-q4", CacheSize: 0, Init: []scOp{O("putq4", h, "A")},
				Threads: [][]scOp{rd(h), rd(h)}},
			scScenario{Name: "cached-store-reader-vs-remove", CacheSize: 1, Extra: 1, Init: []scOp{O("putq4", h, "A")},
				Threads: [][]scOp{{O("cget", h, ""), O("read", 0, ""), O("close", 0, "")}, {O("remove", h, "A")}}},
			scScenario{Name: "reput-vs-remove-vs-reader", CacheSize: 1, Init: []scOp{O("putq4", h, "A")},
				Threads: [][]scOp{{O("remove", h, "A"), O("putods", h, "A")}, rd(h), {O("has", h, "")}}},
			scScenario{Name: "same-hash-two-heights", CacheSize: 2,
				Threads: [][]scOp{{O("putq4", h, "A"), O("remove", h, "A")}, {O("putq4", h2, "A")}, rd(h2)}},
		)
	}
	return sc
}

func scSig(err error) string {
	msg := err.Error()
	if i := strings.Index(msg, ":"); i > 0 {
		return msg[:i]
	}
	return msg
}

type scViolation struct {
	Sig    string `json:"sig"`
	What   string `json:"what"`
	Replay any    `json:"replay"`
}

type scResult struct {
	Name       string        `json:"name"`
	Completed  int           `json:"completed"`
	Executions int64         `json:"executions"`
	Points     int64         `json:"points"`
	Outcomes   int           `json:"outcomes"`
	SeqOrders  int           `json:"seq_orders"`
	Exhaustive bool          `json:"exhaustive"`
	WallS      float64       `json:"wall_s"`
	Violations []scViolation `json:"violations"`
	Infra      []string      `json:"infra"`
}

// scExplore runs the whole exploration of one scenario (sequential reference, then every
// interleaving for each preemption bound) in this process.
func scExplore(t *testing.T, tmp string, sc scScenario, bounds []int, deadline time.Time) scResult {
	t0 := time.Now()
	res := scResult{Name: sc.Name, Completed: -1, Exhaustive: true}
	seen := map[string]bool{}
	viol := func(sig, what string, replay any) {
		if !seen[sig] {
			seen[sig] = true
			res.Violations = append(res.Violations, scViolation{sig, what, replay})
		}
	}
	seqs, serr := scSeqOutcomes(t, tmp, sc)
	if serr != nil {
		sig := scSig(serr)
		if strings.HasPrefix(sig, "harness") {
			res.Infra = append(res.Infra, fmt.Sprintf("%v scenario=%s (atomic)", serr, sc.Name))
		} else {
			viol(sig, serr.Error(), map[string]any{"scenario": sc, "atomic": true})
		}
		res.Exhaustive = false
		return res
	}
	res.SeqOrders = len(seqs)
	outcomes := map[string]int64{}
	for _, b := range bounds {
		st := vx.DFS(vx.DFSOpts{Bound: b, Deadline: deadline}, func(e *vx.Exec) (string, error) {
			r := scRun(t, tmp, sc, e, false, false)
			var rets []string
			for _, rec := range r.recs {
				rets = append(rets, rec.key+"="+rec.ret)
			}
			sort.Strings(rets)
			outcome := strings.Join(rets, ",") + "|" + r.final
			if r.err != nil {
				return "ERR:" + scSig(r.err), r.err
			}
			if !scLinearisable(sc, r, seqs) {
				return "NONLIN", fmt.Errorf("C08/final-state-not-sequential/%s: results %s: final content and results of the mutating operations match no sequential order (%d reference orders)", sc.Name, outcome, len(seqs))
			}
			return outcome, nil
		}, func(e *vx.Exec, err error) {
			sig := scSig(err)
			if strings.HasPrefix(sig, "harness") || strings.HasPrefix(sig, "DIVERGENCE") {
				res.Infra = append(res.Infra, fmt.Sprintf("%v scenario=%s choices=%v", err, sc.Name, e.Choices))
				return
			}
			viol(sig, err.Error(), map[string]any{"scenario": sc, "choices": e.Choices, "trace": e.Trace()})
		})
		res.Executions, res.Points = st.Executions, st.ChoicePoints
		for k, v := range st.Outcomes {
			outcomes[k] = v
		}
		if !st.Complete {
			res.Exhaustive = false
			break
		}
		res.Completed = b
	}
	res.Outcomes = len(outcomes)
	if os.Getenv("VERIF_C08_DEBUG") != "" {
		for k, v := range outcomes {
			fmt.Printf("OUTCOME %d x %s\n", v, strings.ReplaceAll(k, tmp, ""))
		}
	}
	res.WallS = time.Since(t0).Seconds()
	return res
}

func TestVerifC08(t *testing.T) {
	logging.SetAllLoggers(logging.LevelFatal)
	rep := vx.NewReport("C08", "model_checking")
	rep.Rule = "every interleaving within the preemption bound (coverage gives the bound completed per scenario) of 2-3 threads running short scripts of real store operations " +
		"(put ODS/ODSQ4, GetByHeight -> read -> Close, HasByHeight, RemoveODSQ4, RemoveQ4, cached GetByHeight) over heights colliding on lock stripes and cache slots; " +
		"scheduling points at every lock/atomic operation of store, store/cache, store/file, share/eds (import rewrite); distinct_nontrivial = distinct outcomes (return values + final directory and cache content)"
	rep.Assumptions = []string{
		"scheduling at lock/atomic operations is sufficient provided there are no unsynchronised accesses (free-running -race pass of the same scenarios in the thorough tier)",
		"readers hold at most one accessor and call no store operation while holding it; the force-close timeout (1 min) never fires because the fake clock is not advanced",
		"golang-lru keeps its real mutex (its eviction callback only spawns a goroutine); store/file/codec.go keeps the real sync.Map",
	}
	if err := scBuildSquares(); err != nil {
		t.Fatalf("harness: %v", err)
	}
	tmp := os.Getenv("VERIF_TMP")
	if tmp == "" {
		tmp = t.TempDir()
	}
	debug.SetGCPercent(-1)
	runtime.GOMAXPROCS(1)
	if rp := os.Getenv("VERIF_REPLAY"); rp != "" {
		scReplay(t, rep, rp, tmp)
		return
	}
	deadline := rep.Deadline(200*time.Second, 25*time.Minute)
	bounds := []int{0, 1, 2}
	if rep.Tier == "thorough" {
		bounds = []int{0, 1, 2, 3}
	}
	scs := scScenarios(rep.Tier)

	// shard process: one scenario, result to a file, nothing else
	if name := os.Getenv("VERIF_C08_SCENARIO"); name != "" {
		for _, sc := range scs {
			if sc.Name == name {
				dl, _ := strconv.ParseInt(os.Getenv("VERIF_C08_DEADLINE_MS"), 10, 64)
				res := scExplore(t, tmp, sc, bounds, time.UnixMilli(dl))
				b, _ := json.Marshal(res)
				if err := os.WriteFile(os.Getenv("VERIF_C08_OUT"), b, 0o644); err != nil {
					t.Fatal(err)
				}
			}
		}
		return
	}

	// parent: one process per scenario (each with a single P and the whole budget), up to 16 at once
	exhaustive := true
	results := make([]*scResult, len(scs))
	errs := make([]string, len(scs))
	sem := make(chan struct{}, vx.Workers())
	var wg sync.WaitGroup
	for i, sc := range scs {
		wg.Add(1)
		go func(i int, sc scScenario) {
			defer wg.Done()
			sem <- struct{}{}
			defer func() { <-sem }()
			out := filepath.Join(tmp, fmt.Sprintf("c08-shard-%d.json", i))
			cmd := exec.Command(os.Args[0], "-test.run=^TestVerifC08$", "-test.count=1", "-test.timeout=0")
			cmd.Env = append(os.Environ(), "VERIF_C08_SCENARIO="+sc.Name, "VERIF_C08_OUT="+out,
				fmt.Sprintf("VERIF_C08_DEADLINE_MS=%d", deadline.UnixMilli()), "VERIF_EVIDENCE=", "GOMAXPROCS=1")
			ob, err := cmd.CombinedOutput()
			if err != nil {
				tail := string(ob)
				if len(tail) > 1500 {
					tail = tail[len(tail)-1500:]
				}
				// a shard that printed a VIOLATION itself (watchdog) is passed through
				if strings.Contains(string(ob), "VIOLATION property=C08") {
					fmt.Print(string(ob))
				}
				errs[i] = fmt.Sprintf("shard %s: %v: %s", sc.Name, err, tail)
				return
			}
			b, err := os.ReadFile(out)
			if err != nil {
				errs[i] = fmt.Sprintf("shard %s: %v", sc.Name, err)
				return
			}
			var r scResult
			if err := json.Unmarshal(b, &r); err != nil {
				errs[i] = fmt.Sprintf("shard %s: %v", sc.Name, err)
				return
			}
			results[i] = &r
		}(i, sc)
	}
	wg.Wait()
	for i, sc := range scs {
		if errs[i] != "" {
			rep.Infra(errs[i])
			exhaustive = false
			continue
		}
		r := results[i]
		for _, inf := range r.Infra {
			rep.Infra(inf)
		}
		for _, v := range r.Violations {
			rep.Violation(v.Sig, v.What, v.Replay)
		}
		if !r.Exhaustive {
			exhaustive = false
		}
		// stateless search: states = distinct terminal outcomes, transitions = scheduling decisions taken
		rep.Count(r.Executions, int64(r.Outcomes), int64(r.Outcomes), r.Points)
		rep.Set("scenario_"+sc.Name, map[string]any{"threads": sc.Threads, "init": sc.Init, "cache": sc.CacheSize, "extra_cache": sc.Extra,
			"preemption_bound_completed": r.Completed, "executions_at_last_bound": r.Executions, "distinct_outcomes": r.Outcomes,
			"sequential_reference_orders": r.SeqOrders, "wall_s": r.WallS})
		if len(rep.Samples) < 5 {
			rep.AddSample(map[string]any{"scenario": sc})
		}
	}
	rep.Set("shard_processes", len(scs))
	rep.SetExhaustive(exhaustive)
	if rep.Finish() > 0 {
		t.Fail()
	}
}

func scReplay(t *testing.T, rep *vx.Report, path, tmp string) {
	b, err := os.ReadFile(path)
	if err != nil {
		t.Fatal(err)
	}
	var doc struct {
		Replay struct {
			Scenario scScenario `json:"scenario"`
			Choices  []int      `json:"choices"`
			Atomic   bool       `json:"atomic"`
		} `json:"replay"`
	}
	if err := json.Unmarshal(b, &doc); err != nil {
		t.Fatal(err)
	}
	seqs, _ := scSeqOutcomes(t, tmp, doc.Replay.Scenario)
	var first string
	var verr error
	for i := 0; i < 5; i++ {
		e := vx.NewExec(doc.Replay.Choices)
		r := scRun(t, tmp, doc.Replay.Scenario, e, true, doc.Replay.Atomic)
		err := r.err
		if err == nil && !scLinearisable(doc.Replay.Scenario, r, seqs) {
			err = fmt.Errorf("C08/final-state-not-sequential/%s: final %s", doc.Replay.Scenario.Name, r.final)
		}
		obs := fmt.Sprintf("%v|%v", err, r.trace)
		if i == 0 {
			first = obs
			fmt.Printf("REPLAY-TRACE %s\n", strings.Join(r.trace, " -> "))
		} else if obs != first {
			t.Fatalf("NONDETERMINISM: replay %d differs:\n%s\n%s", i, first, obs)
		}
		verr = err
	}
	rep.Count(5, 2, 0, 0)
	rep.AddSample(doc.Replay)
	if verr != nil {
		fmt.Printf("REPLAY-RESULT violation reproduced 5/5: %v\n", verr)
		rep.Violation(scSig(verr), verr.Error(), doc.Replay)
	} else {
		fmt.Println("REPLAY-RESULT no violation")
	}
	rep.Finish()
}
