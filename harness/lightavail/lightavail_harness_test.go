package light

// Verification harness for C03: a light node calls a block available only after verifying its
// whole sample set; pending coordinates stay pending (same coordinates) across retries,
// concurrent calls and restarts.
//
// Two exhaustive parts, both executed on the REAL implementation:
//
//	A (draw)  every byte string the coordinate draw can consume from crypto/rand.Reader (owned by the
//	          enumeration) up to a byte budget: NewSamplingResult must give min(k,area) distinct
//	          in-square coordinates, be a function of the reader bytes only, reach every subset of the
//	          whole extended square and give all subsets the same probability mass.
//	B (EV)    explicit-state BFS over event histories of the real light.ShareAvailability inside a
//	          testing/synctest bubble: SharesAvailable calls (same / different heights, concurrent),
//	          every getter outcome (any subset served, errors, cancel-looking error, real ctx error,
//	          nothing at all), cancellation, deadline, restart (Close + fresh instance over the same
//	          datastore) and crash (fresh instance without Close).

import (
	"context"
	crand "crypto/rand"
	"encoding/json"
	"errors"
	"fmt"
	"io"
	"os"
	"runtime"
	"sort"
	"strconv"
	"strings"
	"sync"
	"sync/atomic"
	"testing"
	"testing/synctest"
	"time"

	"github.com/cometbft/cometbft/types"
	"github.com/ipfs/go-datastore"
	"github.com/ipfs/go-datastore/namespace"
	ds_sync "github.com/ipfs/go-datastore/sync"
	logging "github.com/ipfs/go-log/v2"

	"github.com/celestiaorg/celestia-app/v9/pkg/wrapper"
	libshare "github.com/celestiaorg/go-square/v4/share"
	"github.com/celestiaorg/rsmt2d"

	"github.com/celestiaorg/celestia-node/header"
	"github.com/celestiaorg/celestia-node/share"
	"github.com/celestiaorg/celestia-node/share/eds"
	"github.com/celestiaorg/celestia-node/share/shwap"
	"github.com/celestiaorg/celestia-node/verifx/vx"
)

// ---------------------------------------------------------------- owned randomness

// vReaders maps a goroutine id to the reader that owns crypto/rand.Reader for that goroutine.
// selectRandomSamples reads crypto/rand.Reader synchronously on the goroutine that called
// SharesAvailable / NewSamplingResult, so the harness registers every goroutine it starts.
var (
	vReaders      sync.Map // uint64 -> io.Reader
	vForeignReads atomic.Int64
	// vSeqReader, when set, owns the reader for the whole process (part A runs sequentially and
	// never together with part B); it avoids one stack walk per byte read.
	vSeqReader atomic.Pointer[vTreeReader]
)

type vMux struct{ orig io.Reader }

func (m vMux) Read(p []byte) (int, error) {
	if r := vSeqReader.Load(); r != nil {
		return r.Read(p)
	}
	if r, ok := vReaders.Load(vGoID()); ok {
		return r.(io.Reader).Read(p)
	}
	vForeignReads.Add(1)
	return m.orig.Read(p)
}

func vGoID() uint64 {
	var buf [48]byte
	n := runtime.Stack(buf[:], false)
	const pfx = "goroutine "
	var id uint64
	for _, c := range buf[len(pfx):n] {
		if c < '0' || c > '9' {
			break
		}
		id = id*10 + uint64(c-'0')
	}
	return id
}

var vMuxOnce sync.Once

func vInstallReader() {
	vMuxOnce.Do(func() { crand.Reader = vMux{orig: crand.Reader} })
}

// vBudget is the panic value of a reader whose byte budget is exhausted.
type vBudget struct{}

// ---------------------------------------------------------------- fixture: real squares

type vCoord = shwap.SampleCoords

type vBlock struct {
	height uint64
	w      int
	roots  *share.AxisRoots
	key    datastore.Key
	smp    map[vCoord]shwap.Sample
}

var (
	vBlocksMu sync.Mutex
	vBlocks   = map[string]*vBlock{}
	// number of fixture samples that verified against their roots (trusted-base check)
	vFixtureVerified int
)

func vGetBlock(w int, height uint64) *vBlock {
	vBlocksMu.Lock()
	defer vBlocksMu.Unlock()
	k := fmt.Sprintf("%d/%d", w, height)
	if b, ok := vBlocks[k]; ok {
		return b
	}
	ods := w / 2
	ns := libshare.MustNewV0Namespace([]byte("verifC03"))
	raw := make([][]byte, ods*ods)
	for i := range raw {
		b := make([]byte, libshare.ShareSize)
		copy(b, ns.Bytes())
		for j := libshare.NamespaceSize; j < len(b); j++ {
			b[j] = byte(int(height)*31 + i*7 + j)
		}
		raw[i] = b
	}
	sq, err := rsmt2d.ComputeExtendedDataSquare(raw, share.DefaultRSMT2DCodec(), wrapper.NewConstructor(uint64(ods)))
	if err != nil {
		panic(fmt.Sprintf("harness: extend square: %v", err))
	}
	roots, err := share.NewAxisRoots(sq)
	if err != nil {
		panic(fmt.Sprintf("harness: roots: %v", err))
	}
	roots.Hash()
	if share.DataHash(roots.Hash()).IsEmptyEDS() {
		panic("harness: fixture square is the empty square")
	}
	blk := &vBlock{height: height, w: w, roots: roots, key: datastoreKeyForRoot(roots), smp: map[vCoord]shwap.Sample{}}
	acc := eds.Rsmt2D{ExtendedDataSquare: sq}
	for r := 0; r < w; r++ {
		for c := 0; c < w; c++ {
			co := vCoord{Row: r, Col: c}
			s, err := acc.Sample(context.Background(), co)
			if err != nil {
				panic(fmt.Sprintf("harness: sample: %v", err))
			}
			if err := s.Verify(roots, r, c); err != nil {
				panic(fmt.Sprintf("harness: fixture sample does not verify: %v", err))
			}
			vFixtureVerified++
			blk.smp[co] = s
		}
	}
	vBlocks[k] = blk
	return blk
}

// ---------------------------------------------------------------- coordinate sets

type vSet map[vCoord]bool

func vLess(a, b vCoord) bool {
	if a.Row != b.Row {
		return a.Row < b.Row
	}
	return a.Col < b.Col
}

func vSorted(s vSet) []vCoord {
	out := make([]vCoord, 0, len(s))
	for c := range s {
		out = append(out, c)
	}
	sort.Slice(out, func(i, j int) bool { return vLess(out[i], out[j]) })
	return out
}

func vSetOf(cs []vCoord) vSet {
	s := vSet{}
	for _, c := range cs {
		s[c] = true
	}
	return s
}

func vStr(cs []vCoord) string {
	cs = append([]vCoord(nil), cs...)
	sort.Slice(cs, func(i, j int) bool { return vLess(cs[i], cs[j]) })
	var b strings.Builder
	for i, c := range cs {
		if i > 0 {
			b.WriteByte(' ')
		}
		fmt.Fprintf(&b, "%d.%d", c.Row, c.Col)
	}
	return b.String()
}

func vSetStr(s vSet) string { return vStr(vSorted(s)) }

func vBinom(n, k int) int {
	if k < 0 || k > n {
		return 0
	}
	r := 1
	for i := 1; i <= k; i++ {
		r = r * (n - k + i) / i
	}
	return r
}

// ================================================================= part B: event search

type laCfg struct {
	W           int  `json:"w"`       // width of the extended square (len(RowRoots))
	K           int  `json:"k"`       // configured sample amount
	Heights     int  `json:"heights"` // distinct non-empty blocks (heights 1..Heights)
	MaxCalls    int  `json:"max_calls"`
	MaxConc     int  `json:"max_conc"`
	MaxRestarts int  `json:"max_restarts"`
	Crash       bool `json:"crash"`    // restart without Close allowed
	Deadline    bool `json:"deadline"` // calls carry a 10 s deadline; clock-advance event enabled
	Script      int  `json:"script"`   // which fixed sequence of reader outputs successive draws see
	Depth       int  `json:"depth"`    // BFS depth bound (0 = until the frontier empties)
}

func (c laCfg) String() string {
	return fmt.Sprintf("w=%d,k=%d,heights=%d,calls<=%d,conc<=%d,restarts<=%d,crash=%v,deadline=%v,script=%d,depth=%d",
		c.W, c.K, c.Heights, c.MaxCalls, c.MaxConc, c.MaxRestarts, c.Crash, c.Deadline, c.Script, c.Depth)
}

func (c laCfg) need() int { return min(c.K, c.W*c.W) }

// draws returns the coordinate sequences the reader hands to successive draws (the environment's
// entropy is one stream across restarts). Successive sets differ whenever k < area, so a re-draw
// is visible as different requested coordinates.
func (c laCfg) draws() [][]vCoord {
	area := c.W * c.W
	n := c.need()
	all := make([]vCoord, 0, area)
	for i := 0; i < area; i++ {
		j := i
		if c.Script%2 == 1 {
			j = area - 1 - i
		}
		all = append(all, vCoord{Row: j / c.W, Col: j % c.W})
	}
	step := n
	if c.Script >= 2 {
		step = 1
	}
	var out [][]vCoord
	for d := 0; d < 8; d++ {
		set := make([]vCoord, 0, n)
		for j := 0; j < n; j++ {
			set = append(set, all[(d*step+j+c.Script)%area])
		}
		out = append(out, set)
	}
	return out
}

const (
	vCallTimeout = 10 * time.Second
	vAdvance     = 9 * time.Second // reaches deadline-1s of calls started now, and the deadline of older ones
	vReadBudget  = 4096
)

type vCallKey struct{}

type vAns struct {
	smpls []shwap.Sample
	err   error
}

type vPend struct {
	call   int
	h      uint64
	idxs   []vCoord
	ctx    context.Context
	ans    chan vAns
	judged bool
}

type vCall struct {
	id        int
	h         uint64
	ctx       context.Context
	cancel    context.CancelFunc
	dl        bool
	start     time.Time
	cancelled bool
	abandoned bool
	done      chan struct{}
	ret       error
	panicked  any
	finished  bool // observed as returned
	requested bool // issued at least one getter request
	len0      bool // its last getter answer had length 0
}

type vModel struct {
	first      vSet   // coordinates of the first getter request for the block
	verified   vSet   // coordinates served non-empty (fixture samples: they verify for that block)
	unrecorded string // "" or the reason a completed attempt left no record of the drawn set
	recorded   bool   // a persisted record was seen at some time
}

type laSys struct {
	cfg    laCfg
	blocks []*vBlock
	under  datastore.Batching // what survives the process
	la     *ShareAvailability
	gen    int

	mu      sync.Mutex
	pending []*vPend
	rq      []byte
	draws   int
	rbytes  int

	calls    []*vCall
	restarts int
	crashes  int
	model    map[uint64]*vModel

	err  error
	hist []string
	auto bool // answer every getter call at once with everything (warm-up outside bubbles)
}

// reader fed from the configured script
type vScriptReader struct{ s *laSys }

func (r vScriptReader) Read(p []byte) (int, error) {
	s := r.s
	s.mu.Lock()
	defer s.mu.Unlock()
	ds := s.cfg.draws()
	for i := range p {
		if len(s.rq) == 0 {
			set := ds[s.draws%len(ds)]
			s.draws++
			for _, c := range set {
				s.rq = append(s.rq, byte(c.Row), byte(c.Col))
			}
		}
		s.rbytes++
		if s.rbytes > vReadBudget {
			panic(vBudget{})
		}
		p[i] = s.rq[0]
		s.rq = s.rq[1:]
	}
	return len(p), nil
}

// fake getter: a call returns only when the explorer picks the answer
type vGetter struct{ s *laSys }

func (g vGetter) GetSamples(ctx context.Context, hdr *header.ExtendedHeader, idxs []shwap.SampleCoords) ([]shwap.Sample, error) {
	s := g.s
	id, ok := ctx.Value(vCallKey{}).(int)
	if !ok {
		id = -1
	}
	p := &vPend{call: id, h: hdr.Height(), idxs: append([]vCoord(nil), idxs...), ctx: ctx, ans: make(chan vAns, 1)}
	s.mu.Lock()
	s.pending = append(s.pending, p)
	auto := s.auto
	s.mu.Unlock()
	if auto {
		blk := s.blocks[int(p.h)-1]
		out := make([]shwap.Sample, len(idxs))
		for i, c := range idxs {
			out[i] = blk.smp[c]
		}
		return out, nil
	}
	a := <-p.ans
	return a.smpls, a.err
}

func (g vGetter) GetEDS(context.Context, *header.ExtendedHeader) (*rsmt2d.ExtendedDataSquare, error) {
	panic("unused")
}

func (g vGetter) GetRow(context.Context, *header.ExtendedHeader, int) (shwap.Row, error) {
	panic("unused")
}

func (g vGetter) GetNamespaceData(context.Context, *header.ExtendedHeader, libshare.Namespace) (shwap.NamespaceData, error) {
	panic("unused")
}

func (g vGetter) GetRangeNamespaceData(context.Context, *header.ExtendedHeader, int, int) (shwap.RangeNamespaceData, error) {
	panic("unused")
}

func newLaSys(cfg laCfg) *laSys {
	s := &laSys{cfg: cfg, model: map[uint64]*vModel{}}
	for h := 1; h <= cfg.Heights; h++ {
		s.blocks = append(s.blocks, vGetBlock(cfg.W, uint64(h)))
		s.model[uint64(h)] = &vModel{verified: vSet{}}
	}
	s.under = ds_sync.MutexWrap(datastore.NewMapDatastore())
	s.newInstance()
	return s
}

func (s *laSys) newInstance() {
	s.la = NewShareAvailability(vGetter{s}, s.under, nil, WithSampleAmount(uint(s.cfg.K)))
	s.gen++
}

func (s *laSys) fail(format string, a ...any) {
	if s.err == nil {
		s.err = fmt.Errorf(format, a...)
	}
}

func (s *laSys) inflight() []*vCall {
	var out []*vCall
	for _, c := range s.calls {
		if !c.finished {
			out = append(out, c)
		}
	}
	return out
}

func (s *laSys) pendingSorted() []*vPend {
	s.mu.Lock()
	defer s.mu.Unlock()
	p := append([]*vPend(nil), s.pending...)
	sort.SliceStable(p, func(i, j int) bool {
		if p[i].h != p[j].h {
			return p[i].h < p[j].h
		}
		return p[i].call < p[j].call
	})
	return p
}

// pendAt returns the k-th outstanding getter request for height h. Which of several queued calls
// obtains the session next is decided by the Go scheduler; queued calls are interchangeable (same
// context state - enforced in Enabled), so requests and calls are named by height and role, never
// by call id.
func (s *laSys) pendAt(h uint64, k int) *vPend {
	n := 0
	for _, p := range s.pendingSorted() {
		if p.h == h {
			if n == k {
				return p
			}
			n++
		}
	}
	return nil
}

// queued returns the in-flight calls of height h that hold no getter request, lowest id first.
func (s *laSys) queued(h uint64) []*vCall {
	holding := map[int]bool{}
	for _, p := range s.pendingSorted() {
		holding[p.call] = true
	}
	var out []*vCall
	for _, c := range s.inflight() {
		if c.h == h && !holding[c.id] {
			out = append(out, c)
		}
	}
	return out
}

func (s *laSys) pendOf(call int) *vPend {
	for _, p := range s.pendingSorted() {
		if p.call == call {
			return p
		}
	}
	return nil
}

func (s *laSys) startCall(h uint64, dl bool) *vCall {
	id := len(s.calls)
	base, cancel := context.WithCancel(context.WithValue(context.Background(), vCallKey{}, id))
	ctx := base
	if dl {
		var c2 context.CancelFunc
		ctx, c2 = context.WithTimeout(base, vCallTimeout)
		c1 := cancel
		cancel = func() { c1(); c2() }
	}
	c := &vCall{id: id, h: h, ctx: ctx, cancel: cancel, dl: dl, start: time.Now(), done: make(chan struct{})}
	s.calls = append(s.calls, c)
	blk := s.blocks[int(h)-1]
	// a fresh header object per call, as the DASer hands over; the block is inside the sampling window
	hdr := &header.ExtendedHeader{
		Commit:    &types.Commit{},
		RawHeader: header.RawHeader{Height: int64(h), Time: time.Now().Add(-time.Minute)},
		DAH:       blk.roots,
	}
	la := s.la
	go func() {
		gid := vGoID()
		vReaders.Store(gid, vScriptReader{s})
		defer vReaders.Delete(gid)
		defer close(c.done)
		defer func() {
			if r := recover(); r != nil {
				c.panicked = r
				c.ret = fmt.Errorf("panic: %v", r)
			}
		}()
		c.ret = la.SharesAvailable(ctx, hdr)
	}()
	return c
}

// ---- answers

var vErrGetter = errors.New("verif: getter failed")

func (s *laSys) answer(p *vPend, shape, errKind string) {
	s.mu.Lock()
	for i, q := range s.pending {
		if q == p {
			s.pending = append(s.pending[:i:i], s.pending[i+1:]...)
			break
		}
	}
	s.mu.Unlock()
	blk := s.blocks[int(p.h)-1]
	m := s.model[p.h]
	var a vAns
	switch errKind {
	case "ok":
	case "err":
		a.err = vErrGetter
	case "canc":
		a.err = fmt.Errorf("verif: getter gave up: %w", context.Canceled)
	case "ctx":
		a.err = p.ctx.Err()
		if a.err == nil {
			a.err = context.Canceled
		}
	}
	var c *vCall
	if p.call >= 0 && p.call < len(s.calls) {
		c = s.calls[p.call]
	}
	if shape != "nil" {
		req := vSorted(vSetOf(p.idxs))
		served := vSet{}
		for i, co := range req {
			if i < len(shape) && shape[i] == '1' {
				served[co] = true
			}
		}
		a.smpls = make([]shwap.Sample, len(p.idxs))
		for i, co := range p.idxs {
			if served[co] {
				if smp, ok := blk.smp[co]; ok {
					a.smpls[i] = smp
					m.verified[co] = true // retrieved with a proof that verifies for this block
				}
			}
		}
	}
	if c != nil {
		c.len0 = len(a.smpls) == 0
	}
	p.ans <- a
}

func allOnes(n int) string { return strings.Repeat("1", n) }

// ---- events

func (s *laSys) Enabled() []string {
	if s.err != nil {
		return nil
	}
	var ev []string
	infl := s.inflight()
	perH := map[uint64]int{}
	for _, c := range infl {
		perH[c.h]++
	}
	if len(s.calls) < s.cfg.MaxCalls && len(infl) < s.cfg.MaxConc {
		for h := 1; h <= s.cfg.Heights; h++ {
			if s.cfg.Deadline {
				// calls with deadlines differ by their start time: at most one of them may queue
				// behind the session holder, so that the next holder is never a scheduler decision
				if perH[uint64(h)] < 2 {
					ev = append(ev, fmt.Sprintf("calld:%d", h))
				}
			} else {
				ev = append(ev, fmt.Sprintf("call:%d", h))
			}
		}
	}
	kOf := map[uint64]int{}
	for _, p := range s.pendingSorted() {
		k := kOf[p.h]
		kOf[p.h]++
		id := fmt.Sprintf("%d.%d", p.h, k)
		n := len(vSetOf(p.idxs))
		errs := []string{"ok", "err", "canc"}
		if p.ctx.Err() != nil {
			errs = append(errs, "ctx")
		}
		for mask := (1 << n) - 1; mask >= 0; mask-- {
			var b strings.Builder
			for i := 0; i < n; i++ {
				if mask&(1<<i) != 0 {
					b.WriteByte('1')
				} else {
					b.WriteByte('0')
				}
			}
			for _, e := range errs {
				ev = append(ev, fmt.Sprintf("ans:%s:%s:%s", id, b.String(), e))
			}
		}
		for _, e := range errs {
			ev = append(ev, fmt.Sprintf("ans:%s:nil:%s", id, e))
		}
		if p.call >= 0 && p.call < len(s.calls) && !s.calls[p.call].cancelled {
			ev = append(ev, fmt.Sprintf("cancel:%s", id))
		}
	}
	adv := false
	for h := 1; h <= s.cfg.Heights; h++ {
		if len(s.queued(uint64(h))) > 0 {
			ev = append(ev, fmt.Sprintf("cancel:%d.q", h))
		}
	}
	for _, c := range infl {
		if c.dl && c.ctx.Err() == nil {
			adv = true
		}
	}
	if adv {
		ev = append(ev, "adv")
	}
	if s.restarts < s.cfg.MaxRestarts {
		if len(infl) == 0 {
			ev = append(ev, "restart")
		}
		if s.cfg.Crash {
			ev = append(ev, "crash")
		}
	}
	return ev
}

func (s *laSys) Apply(ev string) error {
	s.hist = append(s.hist, ev)
	parts := strings.Split(ev, ":")
	switch parts[0] {
	case "call", "calld":
		h, _ := strconv.ParseUint(parts[1], 10, 64)
		s.startCall(h, parts[0] == "calld")
	case "ans":
		hk := strings.Split(parts[1], ".")
		h, _ := strconv.ParseUint(hk[0], 10, 64)
		k, _ := strconv.Atoi(hk[1])
		p := s.pendAt(h, k)
		if p == nil {
			return fmt.Errorf("harness: no outstanding getter request %s", parts[1])
		}
		s.answer(p, parts[2], parts[3])
	case "cancel":
		hk := strings.Split(parts[1], ".")
		h, _ := strconv.ParseUint(hk[0], 10, 64)
		var c *vCall
		if hk[1] == "q" {
			if q := s.queued(h); len(q) > 0 {
				c = q[0]
			}
		} else {
			k, _ := strconv.Atoi(hk[1])
			if p := s.pendAt(h, k); p != nil && p.call >= 0 && p.call < len(s.calls) {
				c = s.calls[p.call]
			}
		}
		if c == nil {
			return fmt.Errorf("harness: nothing to cancel for %s", parts[1])
		}
		c.cancelled = true
		c.cancel()
	case "adv":
		time.Sleep(vAdvance)
	case "restart":
		if err := s.la.Close(context.Background()); err != nil {
			return fmt.Errorf("harness: Close: %v", err)
		}
		s.restarts++
		s.newInstance()
	case "crash":
		s.abandon()
		s.restarts++
		s.crashes++
		s.newInstance() // no Close: whatever the old instance only buffered is gone
	default:
		return fmt.Errorf("harness: unknown event %q", ev)
	}
	synctest.Wait()
	s.observe()
	return s.err
}

// abandon ends every in-flight call of a dead (or discarded) instance without judging it.
func (s *laSys) abandon() {
	for _, c := range s.inflight() {
		c.abandoned = true
		c.cancel()
	}
	for i := 0; i < 64; i++ {
		synctest.Wait()
		p := s.pendingSorted()
		if len(p) == 0 {
			break
		}
		// the process is dead: nothing it was waiting for is ever delivered
		s.mu.Lock()
		s.pending = nil
		s.mu.Unlock()
		for _, q := range p {
			q.ans <- vAns{err: context.Canceled}
		}
	}
	synctest.Wait()
	for _, c := range s.calls {
		if c.finished {
			continue
		}
		select {
		case <-c.done:
			c.finished = true
		default:
		}
	}
}

// ---- oracles

func (s *laSys) record(view string, blk *vBlock) (*SamplingResult, bool) {
	var data []byte
	var err error
	ctx := context.Background()
	if view == "instance" {
		s.la.dsLk.RLock()
		data, err = s.la.ds.Get(ctx, blk.key)
		s.la.dsLk.RUnlock()
	} else {
		data, err = namespace.Wrap(s.under, samplingResultsPrefix).Get(ctx, blk.key)
	}
	if err != nil {
		return nil, false
	}
	var r SamplingResult
	if err := json.Unmarshal(data, &r); err != nil {
		s.fail("C03/persisted-unreadable: %s view of block %d: %v", view, blk.height, err)
		return nil, false
	}
	return &r, true
}

func recStr(r *SamplingResult, ok bool) string {
	if !ok {
		return "-"
	}
	return "A[" + vStr(r.Available) + "]R[" + vStr(r.Remaining) + "]"
}

func vOutcome(err error) string {
	switch {
	case err == nil:
		return "available"
	case errors.Is(err, share.ErrNotAvailable):
		return "not-available"
	case errors.Is(err, context.Canceled):
		return "canceled"
	case errors.Is(err, context.DeadlineExceeded):
		return "deadline"
	case strings.HasPrefix(err.Error(), "panic:"):
		return "panic"
	default:
		return "error:" + strings.SplitN(err.Error(), ":", 2)[0]
	}
}

var (
	vOutMu     sync.Mutex
	vOutcomes  = map[string]int64{}
	vDrainAcc  atomic.Int64
	vDrainRej  atomic.Int64
	vFirstSets sync.Map // string -> struct{}: distinct first-drawn sets seen by the EV part
)

func vCountOutcome(k string) {
	vOutMu.Lock()
	vOutcomes[k]++
	vOutMu.Unlock()
}

// observe evaluates every oracle after an event (also during replay: the model is history-dependent).
func (s *laSys) observe() {
	if s.err != nil {
		return
	}
	area := s.cfg.W * s.cfg.W
	need := s.cfg.need()

	// (i) verdicts (judged first: a call that returned without recording its draw explains a re-draw
	// by a queued call that proceeds in the same step)
	for _, c := range s.calls {
		if c.finished {
			continue
		}
		select {
		case <-c.done:
		default:
			continue
		}
		c.finished = true
		if c.abandoned {
			continue
		}
		vCountOutcome(vOutcome(c.ret))
		m := s.model[c.h]
		blk := s.blocks[int(c.h)-1]
		if c.ret == nil {
			have := 0
			for co := range m.first {
				if m.verified[co] {
					have++
				}
			}
			if have < need {
				s.fail("C03/false-available: call %d for block %d returned nil with %d of the first set [%s] verified ([%s]); need %d",
					c.id, c.h, have, vSetStr(m.first), vSetStr(m.verified), need)
				return
			}
		}
		if c.requested {
			if _, ok := s.record("instance", blk); !ok && s.err == nil {
				if c.len0 {
					m.unrecorded = "empty-result"
				} else {
					m.unrecorded = "unrecorded-attempt"
				}
			}
		}
	}
	if s.err != nil {
		return
	}

	// (ii) coordinates handed to the getter
	for _, p := range s.pendingSorted() {
		if p.judged {
			continue
		}
		p.judged = true
		m := s.model[p.h]
		if p.call >= 0 && p.call < len(s.calls) {
			s.calls[p.call].requested = true
		}
		req := vSetOf(p.idxs)
		for c := range req {
			if c.Row < 0 || c.Col < 0 || c.Row >= s.cfg.W || c.Col >= s.cfg.W {
				s.fail("C03/draw/out-of-square: coordinate %d.%d requested for a square of width %d", c.Row, c.Col, s.cfg.W)
				return
			}
		}
		if m.first == nil {
			m.first = req
			vFirstSets.Store(fmt.Sprintf("w%d:%s", s.cfg.W, vSetStr(req)), struct{}{})
			if len(req) != need || len(p.idxs) != need {
				s.fail("C03/draw/count: first request for block %d has %d coordinates (%d distinct), need min(k=%d, area=%d)=%d: [%s]",
					p.h, len(p.idxs), len(req), s.cfg.K, area, need, vStr(p.idxs))
				return
			}
			continue
		}
		owed := 0
		for c := range m.first {
			if !m.verified[c] {
				owed++
			}
		}
		if owed == 0 {
			// every coordinate of the first set has been retrieved: nothing is pending, so sampling
			// the block again (e.g. after its record was lost) replaces no pending coordinate
			continue
		}
		var extra, missing []vCoord
		for c := range req {
			if !m.first[c] {
				extra = append(extra, c)
			}
		}
		for c := range m.first {
			if !m.verified[c] && !req[c] {
				missing = append(missing, c)
			}
		}
		if len(extra) > 0 {
			cause := "other"
			switch {
			case m.unrecorded != "":
				cause = m.unrecorded
			case s.crashes > 0 && m.recorded:
				cause = "crash-unflushed" // a record existed, but only in the dead instance's write buffer
			case s.crashes > 0:
				cause = "crash-before-record" // the process died while the first attempt was still running
			}
			s.fail("C03/redraw/after=%s: block %d was first checked with [%s] (verified so far [%s]) but call %d asks the getter for [%s]: pending coordinates were replaced by newly drawn ones",
				cause, p.h, vSetStr(m.first), vSetStr(m.verified), p.call, vStr(p.idxs))
			return
		}
		if len(missing) > 0 {
			s.fail("C03/pending-dropped: block %d first set [%s], verified [%s], but call %d asks only for [%s]: pending [%s] is not re-requested",
				p.h, vSetStr(m.first), vSetStr(m.verified), p.call, vStr(p.idxs), vStr(missing))
			return
		}
	}

	if s.err != nil {
		return
	}

	// (iii) persisted result, as this instance sees it and as a fresh instance would
	for _, blk := range s.blocks {
		m := s.model[blk.height]
		for _, view := range []string{"instance", "disk"} {
			r, ok := s.record(view, blk)
			if s.err != nil {
				return
			}
			if !ok {
				continue
			}
			m.recorded = true
			for _, co := range r.Available {
				if !m.verified[co] {
					s.fail("C03/persisted-unverified: %s view of block %d lists %d.%d as available but it was never retrieved (verified [%s]); record %s",
						view, blk.height, co.Row, co.Col, vSetStr(m.verified), recStr(r, true))
					return
				}
			}
			rem := vSetOf(r.Remaining)
			for co := range m.first {
				if !m.verified[co] && !rem[co] {
					s.fail("C03/persisted-pending-lost: %s view of block %d does not keep pending %d.%d (first [%s], verified [%s]); record %s",
						view, blk.height, co.Row, co.Col, vSetStr(m.first), vSetStr(m.verified), recStr(r, true))
					return
				}
			}
		}
	}

	// (v) every call returns: a call that is neither finished nor waiting in the getter must be
	// queued behind a call of the same height that is
	waiting := map[uint64]bool{}
	for _, p := range s.pendingSorted() {
		waiting[p.h] = true
	}
	for _, c := range s.inflight() {
		if !waiting[c.h] {
			s.fail("C03/call-hangs: call %d for block %d has not returned although no getter request of that block is outstanding", c.id, c.h)
			return
		}
	}
}

func (s *laSys) Check() error { return s.err }

func (s *laSys) Fingerprint() string {
	var b strings.Builder
	fmt.Fprintf(&b, "calls=%d restarts=%d crashes=%d draws=%d rq=%d|", len(s.calls), s.restarts, s.crashes, s.draws, len(s.rq))
	for _, blk := range s.blocks {
		m := s.model[blk.height]
		ri, oki := s.record("instance", blk)
		rd, okd := s.record("disk", blk)
		first := "-"
		if m.first != nil {
			first = vSetStr(m.first)
		}
		// unrec/rec do not change behaviour, only the diagnosis (signature) of a later re-draw
		fmt.Fprintf(&b, "h%d first[%s] ver[%s] unrec=%s rec=%v inst=%s disk=%s|", blk.height, first, vSetStr(m.verified), m.unrecorded, m.recorded,
			recStr(ri, oki), recStr(rd, okd))
	}
	pend := map[int]*vPend{}
	for _, p := range s.pendingSorted() {
		pend[p.call] = p
	}
	var entries []string
	for _, c := range s.inflight() {
		el := 0
		if c.dl {
			switch d := time.Since(c.start); {
			case d >= vCallTimeout:
				el = 2
			case d >= vCallTimeout-time.Second:
				el = 1
			}
		}
		e := fmt.Sprintf("call h%d canc=%v dl=%v el=%d ctx=%v", c.h, c.cancelled, c.dl, el, c.ctx.Err() != nil)
		if p, ok := pend[c.id]; ok {
			e += fmt.Sprintf(" get[%s] sctx=%v", vStr(p.idxs), p.ctx.Err() != nil)
		} else {
			e += " queued"
		}
		entries = append(entries, e)
	}
	sort.Strings(entries)
	b.WriteString(strings.Join(entries, "|"))
	return b.String()
}

func (s *laSys) Close() {
	saved := s.err
	s.abandon()
	for _, c := range s.calls {
		c.cancel() // stops the deadline timers of calls that already returned
	}
	s.err = saved
}

// drain: from the given state let the getter serve everything; every call must return, and one
// honest retry per block is made as a positive control (its acceptance is counted, not demanded).
func (s *laSys) drain() error {
	if s.err != nil {
		return nil
	}
	for i := 0; i < 64; i++ {
		p := s.pendingSorted()
		if len(p) == 0 {
			break
		}
		s.answer(p[0], allOnes(len(vSetOf(p[0].idxs))), "ok")
		synctest.Wait()
		s.observe()
		if s.err != nil {
			return s.err
		}
	}
	if n := len(s.inflight()); n > 0 {
		return fmt.Errorf("C03/call-hangs: %d calls still running after every getter request was served", n)
	}
	for h := 1; h <= s.cfg.Heights; h++ {
		c := s.startCall(uint64(h), false)
		synctest.Wait()
		s.observe()
		for i := 0; i < 8 && s.err == nil; i++ {
			p := s.pendOf(c.id)
			if p == nil {
				break
			}
			s.answer(p, allOnes(len(vSetOf(p.idxs))), "ok")
			synctest.Wait()
			s.observe()
		}
		if s.err != nil {
			return s.err
		}
		if !c.finished {
			return fmt.Errorf("C03/call-hangs: honest retry for block %d does not return", h)
		}
		if c.ret == nil {
			vDrainAcc.Add(1)
		} else {
			vDrainRej.Add(1)
		}
	}
	return nil
}

func vSig(err error) string {
	msg := err.Error()
	if i := strings.Index(msg, ": "); i > 0 {
		return msg[:i]
	}
	return msg
}

// vRunHistory executes one history on a fresh instance in its own bubble.
func vRunHistory(t *testing.T, cfg laCfg, hist []string, withDrain bool, trace bool) (err error, fps []string) {
	synctest.Test(t, func(*testing.T) {
		s := newLaSys(cfg)
		defer s.Close()
		for _, ev := range hist {
			ok := false
			for _, e := range s.Enabled() {
				if e == ev {
					ok = true
				}
			}
			if !ok {
				err = fmt.Errorf("DIVERGENCE: event %q not enabled (enabled %v)", ev, s.Enabled())
				return
			}
			err = s.Apply(ev)
			fp := s.Fingerprint()
			fps = append(fps, fp)
			if trace {
				fmt.Printf("REPLAY-STEP %s -> %s\n", ev, fp)
			}
			if err != nil {
				return
			}
		}
		if withDrain {
			err = s.drain()
		}
	})
	return err, fps
}

// ================================================================= part A: the draw

type vTreeReader struct {
	e    *vx.Exec
	alph int
	n, l int
	// forced, when non-nil, replays exactly these bytes (determinism check)
	forced []byte
	got    []byte
	// ladder mode (width ladder): byte positions < full range over 0..255, positions < prefix over
	// vA6, later positions come from the fixed tail vTailByte
	ladder       bool
	full, prefix int
}

// vA6 is the explicit byte alphabet of the width ladder: both ends and the middle of a byte.
var vA6 = []byte{0x00, 0x01, 0x7f, 0x80, 0xfe, 0xff}

// vTailByte is the fixed continuation after the enumerated prefix: first the prefix once more (a
// forced duplicate of whatever the prefix produced), then byte pairs (p, p>>2) for p = 0,1,2,...,
// which walk through distinct coordinates for every width.
func vTailByte(t int, prefix []byte) byte {
	if t < len(prefix) {
		return prefix[t]
	}
	j := t - len(prefix)
	p := j / 2
	if j%2 == 0 {
		return byte(p)
	}
	return byte(p >> 2)
}

func (r *vTreeReader) Read(p []byte) (int, error) {
	for i := range p {
		if r.n >= r.l {
			panic(vBudget{})
		}
		var b byte
		switch {
		case r.forced != nil && r.n < len(r.forced):
			b = r.forced[r.n]
		case r.ladder && r.n >= r.prefix:
			b = vTailByte(r.n-r.prefix, r.got[:r.prefix])
		case r.ladder && r.n >= r.full:
			b = vA6[r.e.Choose(len(vA6), "a6")]
		case r.ladder:
			b = byte(r.e.Choose(256, "byte"))
		case r.forced != nil:
			panic(vBudget{})
		default:
			b = byte(r.e.Choose(r.alph, "byte"))
		}
		r.got = append(r.got, b)
		r.n++
		p[i] = b
	}
	return len(p), nil
}

// vDraw runs the real draw under reader rd; truncated reports an exhausted byte budget.
func vDraw(rd *vTreeReader, w, k int) (res *SamplingResult, truncated bool, pan any) {
	vSeqReader.Store(rd)
	defer vSeqReader.Store(nil)
	defer func() {
		if r := recover(); r != nil {
			if _, ok := r.(vBudget); ok {
				truncated = true
				return
			}
			pan = r
		}
	}()
	return NewSamplingResult(w, k), false, nil
}

type drawStats struct {
	W, K          int
	Alphabet      int
	ByteBudget    int
	Executions    int64
	Truncated     int64
	Sets          int
	SetsPossible  int
	MassMin       uint64
	MassMax       uint64
	MassTruncated uint64
	MassTotal     uint64
	Complete      bool
	CoordsReached int
}

func vPow(a, n int) uint64 {
	r := uint64(1)
	for i := 0; i < n; i++ {
		r *= uint64(a)
	}
	return r
}

// vDrawTree enumerates every byte string over {0..alph-1} of at most l bytes that the draw can
// consume; a leaf that consumed n bytes has probability alph^-n = weight alph^(l-n) / alph^l.
func vDrawTree(rep *vx.Report, w, k, alph, l int, deadline time.Time) drawStats {
	area := w * w
	need := min(k, area)
	st := drawStats{W: w, K: k, Alphabet: alph, ByteBudget: l, SetsPossible: vBinom(area, need), MassTotal: vPow(alph, l)}
	mass := map[string]uint64{}
	coords := vSet{}
	var mu sync.Mutex
	viol := func(sig, what string, bytes []byte) {
		rep.Violation(sig, what, map[string]any{"part": "draw", "w": w, "k": k, "reader_bytes": fmt.Sprint(bytes)})
	}
	body := func(e *vx.Exec) (string, error) {
		rd := &vTreeReader{e: e, alph: alph, l: l}
		res, trunc, pan := vDraw(rd, w, k)
		mu.Lock()
		defer mu.Unlock()
		if pan != nil {
			viol("C03/draw/panic", fmt.Sprintf("NewSamplingResult(%d,%d) panics: %v", w, k, pan), rd.got)
			return "panic", nil
		}
		if trunc {
			st.Truncated++
			st.MassTruncated += vPow(alph, l-rd.n)
			return "truncated", nil
		}
		wt := vPow(alph, l-rd.n)
		set := vSetOf(res.Remaining)
		if len(res.Available) != 0 {
			viol("C03/draw/available-nonempty", fmt.Sprintf("fresh result already lists available coordinates [%s]", vStr(res.Available)), rd.got)
		}
		if len(res.Remaining) != need || len(set) != need {
			sig := "C03/draw/count"
			if len(set) != len(res.Remaining) {
				sig = "C03/draw/duplicate"
			}
			viol(sig, fmt.Sprintf("draw for width %d, k=%d gives %d coordinates (%d distinct), need %d: [%s]", w, k, len(res.Remaining), len(set), need, vStr(res.Remaining)), rd.got)
		}
		for c := range set {
			if c.Row < 0 || c.Col < 0 || c.Row >= w || c.Col >= w {
				viol("C03/draw/out-of-square", fmt.Sprintf("coordinate %d.%d outside width %d", c.Row, c.Col, w), rd.got)
			}
			coords[c] = true
		}
		key := vSetStr(set)
		mass[key] += wt
		// a function of the reader bytes only: the same bytes give the same set
		rd2 := &vTreeReader{alph: alph, l: len(rd.got), forced: rd.got}
		mu.Unlock()
		res2, trunc2, pan2 := vDraw(rd2, w, k)
		mu.Lock()
		if trunc2 || pan2 != nil || vStr(res2.Remaining) != key || rd2.n != rd.n {
			viol("C03/draw/not-a-function-of-reader-bytes", fmt.Sprintf("same reader bytes gave [%s] then [%v] (bytes used %d then %d)", key, res2, rd.n, rd2.n), rd.got)
		}
		return key, nil
	}
	ds := vx.DFS(vx.DFSOpts{Bound: 1 << 30, Deadline: deadline, Workers: 1}, body, nil)
	st.Executions = ds.Executions
	st.Complete = ds.Complete
	st.Sets = len(mass)
	st.CoordsReached = len(coords)
	first := true
	for _, m := range mass {
		if first || m < st.MassMin {
			st.MassMin = m
		}
		if first || m > st.MassMax {
			st.MassMax = m
		}
		first = false
	}
	if st.Sets < st.SetsPossible {
		st.MassMin = 0
	}
	if !st.Complete {
		return st
	}
	var sum uint64
	for _, m := range mass {
		sum += m
	}
	if sum+st.MassTruncated != st.MassTotal {
		rep.Infra(fmt.Sprintf("draw tree w=%d k=%d: probability mass %d+%d does not add up to %d", w, k, sum, st.MassTruncated, st.MassTotal))
	}
	// Whatever the truncated executions would have produced, they can add at most MassTruncated to
	// any set. If the spread is larger than that, the sets are not equally likely.
	if st.MassMax-st.MassMin > st.MassTruncated {
		what := fmt.Sprintf("width %d, k=%d: over all reader byte strings (alphabet %d, <= %d bytes) the %d reachable coordinate sets (of %d possible, %d of %d coordinates reached) have probability between %d/%d and %d/%d with only %d/%d undecided",
			w, k, alph, l, st.Sets, st.SetsPossible, st.CoordsReached, area, st.MassMin, st.MassTotal, st.MassMax, st.MassTotal, st.MassTruncated, st.MassTotal)
		sig := "C03/draw/non-uniform"
		if st.CoordsReached < area {
			sig = "C03/draw/part-of-square-unreachable"
		} else if st.Sets < st.SetsPossible {
			sig = "C03/draw/sets-unreachable"
		}
		rep.Violation(sig, what, map[string]any{"part": "draw", "w": w, "k": k, "alphabet": alph, "byte_budget": l})
	}
	return st
}

// ---- width ladder: the draw on every extended width up to 1024

const (
	vLadderPrefix = 4    // enumerated byte positions (one coordinate needs 2 bytes up to width 256, 4 above)
	vLadderBudget = 4096 // bytes a single draw may consume before it is counted as truncated
)

type ladderStats struct {
	W, K        int
	FullBytes   int // leading positions enumerated over all 256 values (the rest of the prefix over vA6)
	Executions  int64
	Truncated   int64
	MinBytes    int
	MaxBytes    int
	RowsReached int
	ColsReached int
	RowMax      int
	ColMax      int
	Complete    bool
	rows, cols  []bool
}

// vDrawLadder enumerates every reader prefix (positions < full over 0..255, positions < 4 over vA6,
// only as far as the draw actually reads) followed by the fixed tail, and checks range, count and
// distinctness of every drawn set; it returns which row and column values were reached.
func vDrawLadder(rep *vx.Report, w, k, full int, deadline time.Time) ladderStats {
	area := w * w
	need := min(k, area)
	st := ladderStats{W: w, K: k, FullBytes: full, MinBytes: -1, rows: make([]bool, w), cols: make([]bool, w)}
	viol := func(sig, what string, bytes []byte) {
		rep.Violation(sig, what, map[string]any{"part": "ladder-case", "w": w, "k": k, "reader_prefix": fmt.Sprint(bytes)})
	}
	body := func(e *vx.Exec) (string, error) {
		rd := &vTreeReader{e: e, l: vLadderBudget, ladder: true, full: full, prefix: vLadderPrefix}
		res, trunc, pan := vDraw(rd, w, k)
		pre := rd.got[:min(len(rd.got), vLadderPrefix)]
		if pan != nil {
			viol("C03/draw/panic", fmt.Sprintf("NewSamplingResult(%d,%d) panics: %v", w, k, pan), pre)
			return "panic", nil
		}
		if trunc {
			st.Truncated++
			return "truncated", nil
		}
		if st.MinBytes < 0 || rd.n < st.MinBytes {
			st.MinBytes = rd.n
		}
		st.MaxBytes = max(st.MaxBytes, rd.n)
		set := vSetOf(res.Remaining)
		if len(res.Remaining) != need || len(set) != need {
			sig := "C03/draw/count"
			if len(set) != len(res.Remaining) {
				sig = "C03/draw/duplicate"
			}
			viol(sig, fmt.Sprintf("draw for width %d, k=%d gives %d coordinates (%d distinct), need %d", w, k, len(res.Remaining), len(set), need), pre)
		}
		for c := range set {
			if c.Row < 0 || c.Col < 0 || c.Row >= w || c.Col >= w {
				viol("C03/draw/out-of-square", fmt.Sprintf("coordinate %d.%d outside width %d", c.Row, c.Col, w), pre)
				continue
			}
			st.rows[c.Row] = true
			st.cols[c.Col] = true
		}
		// a function of the reader bytes only
		rd2 := &vTreeReader{l: vLadderBudget, ladder: true, full: full, prefix: vLadderPrefix, forced: append([]byte(nil), pre...)}
		if len(pre) < vLadderPrefix {
			rd2.ladder, rd2.l = false, len(pre)
		}
		res2, trunc2, pan2 := vDraw(rd2, w, k)
		if trunc2 || pan2 != nil || vStr(res2.Remaining) != vStr(res.Remaining) || rd2.n != rd.n {
			viol("C03/draw/not-a-function-of-reader-bytes", fmt.Sprintf("same reader bytes gave [%s] then [%v] (bytes used %d then %d)", vStr(res.Remaining), res2, rd.n, rd2.n), pre)
		}
		return "ok", nil
	}
	ds := vx.DFS(vx.DFSOpts{Bound: 1 << 30, Deadline: deadline, Workers: 1}, body, nil)
	st.Executions = ds.Executions
	st.Complete = ds.Complete
	for v := 0; v < w; v++ {
		if st.rows[v] {
			st.RowsReached++
			st.RowMax = v
		}
		if st.cols[v] {
			st.ColsReached++
			st.ColMax = v
		}
	}
	if st.Complete && st.Executions > 0 && st.Truncated == st.Executions {
		rep.Infra(fmt.Sprintf("width ladder w=%d k=%d: every execution exceeded the byte budget %d", w, k, vLadderBudget))
	}
	return st
}

// vLadderVerdict: the unchanged draw is uniform over [0,w)^2, so over the enumerated prefixes both
// axes must reach 0, w-1 and every quarter of [0,w).
func vLadderVerdict(rep *vx.Report, w int, runs []ladderStats) {
	for axis, name := range []string{"row", "column"} {
		reached := make([]bool, w)
		for _, st := range runs {
			src := st.rows
			if axis == 1 {
				src = st.cols
			}
			for v, ok := range src {
				if ok {
					reached[v] = true
				}
			}
		}
		quarters := map[int]bool{}
		maxV, n := -1, 0
		for v, ok := range reached {
			if ok {
				quarters[v*4/w] = true
				maxV = v
				n++
			}
		}
		var missing []string
		for v := 0; v < w; v++ {
			if q := v * 4 / w; !quarters[q] {
				quarters[q] = true
				missing = append(missing, fmt.Sprintf("[%d,%d)", (q*w+3)/4, ((q+1)*w+3)/4))
			}
		}
		if !reached[0] {
			missing = append(missing, "0")
		}
		if !reached[w-1] {
			missing = append(missing, fmt.Sprintf("%d", w-1))
		}
		if len(missing) == 0 {
			continue
		}
		var modes []string
		for _, st := range runs {
			modes = append(modes, fmt.Sprintf("k=%d/full=%d/execs=%d/bytes=%d..%d", st.K, st.FullBytes, st.Executions, st.MinBytes, st.MaxBytes))
		}
		rep.Violation("C03/draw/unreachable-quadrant",
			fmt.Sprintf("width %d: over every enumerated reader prefix (%s) the drawn %s indices never reach %s; %d of %d values reached, largest %d: part of the extended square can never be sampled",
				w, strings.Join(modes, " "), name, strings.Join(missing, ", "), n, w, maxV),
			map[string]any{"part": "ladder", "w": w})
	}
}

// vLadderWidth runs the ladder cases of one width for the tier.
func vLadderWidth(rep *vx.Report, w int, quick bool, deadline time.Time) (runs []ladderStats, complete bool) {
	complete = true
	type lc struct{ k, full int }
	cases := []lc{{1, 0}, {16, 0}}
	// the six-value alphabet alone does not reach every quarter of a width between 8 and 128
	// (0x7f&(w-1) = w-1, 0x80&(w-1) = 0): there the first two bytes range over all 65,536 pairs.
	// Above 256 one coordinate takes four bytes; the full pairs are affordable in the thorough tier.
	if (w >= 8 && w <= 256) || (!quick && w > 256) {
		cases = append(cases, lc{1, 2})
	}
	for _, c := range cases {
		st := vDrawLadder(rep, w, c.k, c.full, deadline)
		if !st.Complete {
			complete = false
		}
		runs = append(runs, st)
	}
	if complete {
		vLadderVerdict(rep, w, runs)
	}
	return runs, complete
}

// vDrawBytes: all 65,536 two-byte strings over the full byte alphabet for k=1.
func vDrawBytes(rep *vx.Report, w int) drawStats { return vDrawTree(rep, w, 1, 256, 2, time.Time{}) }

// ================================================================= driver

func TestVerifC03(t *testing.T) {
	logging.SetAllLoggers(logging.LevelFatal)
	vInstallReader()
	// The autobatch layer pre-allocates a map of writeBatchSize entries per instance and per flush;
	// no explored history holds more than two keys, so a smaller buffer behaves identically.
	writeBatchSize = 16
	rep := vx.NewReport("C03", "model_checking")
	rep.Rule = "part A: every byte string (per-byte alphabet {0..w-1}; full 0..255 for k=1) of bounded length that NewSamplingResult can consume from " +
		"crypto/rand.Reader, one execution per string, distinct = distinct resulting coordinate sets; width ladder w = 2..1024, k in {1,16}: every reader prefix of 4 bytes " +
		"over {00,01,7f,80,fe,ff} (first two bytes over all 65,536 pairs for widths 8..256, in the thorough tier also 512 and 1024) followed by a fixed tail; part B: explicit-state BFS over event histories of the real " +
		"light.ShareAvailability, frontier run until empty within the call/restart bounds (events: call(height)[+deadline], getter answer = every subset of the requested coordinates served | nil slice, each with " +
		"no error / error / error wrapping context.Canceled / the real ctx error, cancel(session holder | queued call), clock advance, restart = Close + fresh instance over the same " +
		"datastore, crash = fresh instance without Close); a state is distinct and non-trivial when its canonical fingerprint (per block: first drawn set, " +
		"verified set, persisted record as seen by the instance and on disk; in-flight calls with their getter request and context state; counters) was not seen before"
	rep.Assumptions = []string{
		"the getter keeps its documented contract: a result is either empty or positionally aligned with the requested coordinates; non-empty samples it returns verify for the block (the getter's own verification is property C06)",
		"'retrieved with a valid proof' is ground truth of the fake getter: it serves fixture samples of a real extended square that were checked with Sample.Verify against the block's roots",
		"crypto/rand.Reader is the only entropy of the draw (checked: same bytes => same set); EDS widths are powers of two, so rand.Int never rejects and the low log2(w) bits of each byte decide (checked over all 65,536 byte pairs)",
		"a graceful restart happens with no call in flight and calls Close; a crash may happen at any time and loses whatever the instance only buffered",
		"datastore operations do not fail; two different heights never carry the same data root",
		"the package variable writeBatchSize (autobatch buffer capacity, 2048) is set to 16 for speed; no explored history buffers more than 2 keys, so no flush is triggered by size either way",
		"Sessions interleavings finer than one getter call (sync.Map granularity) are not explored here; which of several queued same-height calls obtains the session next is a scheduler decision, so queued calls are kept interchangeable (calls with deadlines: at most one queued per height) and events name calls by height and role",
		"a request that asks for coordinates outside the first drawn set is a violation only while some coordinate of that set is still unretrieved (sampling a fully verified block again replaces no pending coordinate)",
	}

	if rp := os.Getenv("VERIF_REPLAY"); rp != "" {
		replayC03(t, rep, rp)
		return
	}

	deadline := rep.Deadline(75*time.Second, 18*time.Minute)
	exhaustive := true

	// warm-up outside any bubble: lazily initialised globals must not belong to a bubble
	{
		s := newLaSys(laCfg{W: 2, K: 2, Heights: 1, MaxCalls: 1, MaxConc: 1})
		s.auto = true
		c := s.startCall(1, false)
		<-c.done
		if c.ret != nil {
			rep.Infra(fmt.Sprintf("warm-up call failed: %v", c.ret))
		}
		_ = s.la.Close(context.Background())
	}

	// ---------------- part A
	quick := rep.Tier == "quick"
	var drawRuns []drawStats
	var aExec, aSets int64
	widths := []int{2, 4, 8}
	if !quick {
		widths = []int{2, 4, 8, 16, 32, 64, 128}
	}
	for _, w := range widths {
		st := vDrawBytes(rep, w)
		drawRuns = append(drawRuns, st)
	}
	type ab struct{ w, k, dup int }
	var trees []ab
	if quick {
		trees = []ab{{2, 1, 3}, {2, 2, 3}, {2, 3, 3}, {2, 4, 4}, {2, 16, 4}, {4, 1, 2}, {4, 2, 2}, {4, 3, 1}}
	} else {
		trees = []ab{{2, 1, 5}, {2, 2, 5}, {2, 3, 5}, {2, 4, 6}, {2, 16, 6}, {4, 1, 3}, {4, 2, 3}, {4, 3, 2}, {4, 4, 1}, {8, 1, 2}, {8, 2, 1}}
	}
	for _, tr := range trees {
		need := min(tr.k, tr.w*tr.w)
		st := vDrawTree(rep, tr.w, tr.k, tr.w, 2*(need+tr.dup), deadline)
		if !st.Complete {
			exhaustive = false
		}
		drawRuns = append(drawRuns, st)
	}
	// width ladder: every extended width up to 1024 (share.MaxSquareSize = 512 shares per ODS axis)
	var ladderRuns []ladderStats
	var lExec int64
	for w := 2; w <= 1024; w *= 2 {
		lr, ok := vLadderWidth(rep, w, quick, deadline)
		if !ok {
			exhaustive = false
		}
		for _, st := range lr {
			lExec += st.Executions
		}
		ladderRuns = append(ladderRuns, lr...)
	}
	rep.Set("draw_width_ladder", ladderRuns)
	rep.Count(lExec*2, int64(len(ladderRuns)), 0, 0)
	// k = area = 16 on the 4x4 square cannot be enumerated (16! orders): a fixed list of orders
	fixed := 0
	{
		area := 16
		for rot := 0; rot < area; rot++ {
			for _, rev := range []bool{false, true} {
				bs := make([]byte, 0, 2*area)
				for i := 0; i < area; i++ {
					j := (i + rot) % area
					if rev {
						j = area - 1 - j
					}
					bs = append(bs, byte(j/4), byte(j%4))
				}
				res, trunc, pan := vDraw(&vTreeReader{l: len(bs), forced: bs}, 4, 16)
				fixed++
				if trunc || pan != nil || len(vSetOf(res.Remaining)) != area || len(res.Remaining) != area {
					rep.Violation("C03/draw/count", fmt.Sprintf("k=16 on the 4x4 square does not give the whole square: %v trunc=%v panic=%v", res, trunc, pan),
						map[string]any{"part": "draw", "w": 4, "k": 16, "reader_bytes": fmt.Sprint(bs)})
				}
			}
		}
	}
	for _, st := range drawRuns {
		aExec += st.Executions
		aSets += int64(st.Sets)
	}
	aExec += int64(fixed)
	rep.Set("draw_runs", drawRuns)
	rep.Set("draw_fixed_order_cases_w4_k16", fixed)
	rep.Count(aExec*2, aSets, 0, 0) // every leaf is executed twice (determinism)
	if len(drawRuns) > 0 {
		rep.AddSample(map[string]any{"part": "draw", "case": "NewSamplingResult(2,2) under reader bytes [0 1 0 1 1 1]", "result": func() string {
			r, _, _ := vDraw(&vTreeReader{l: 6, forced: []byte{0, 1, 0, 1, 1, 1}}, 2, 2)
			if r == nil {
				return "?"
			}
			return vStr(r.Remaining)
		}()})
	}

	// ---------------- part B
	var runs []laCfg
	if quick {
		runs = []laCfg{
			{W: 2, K: 1, Heights: 1, MaxCalls: 3, MaxConc: 2, MaxRestarts: 1, Crash: true},
			{W: 2, K: 2, Heights: 2, MaxCalls: 3, MaxConc: 2, MaxRestarts: 1, Crash: true},
			{W: 4, K: 2, Heights: 1, MaxCalls: 3, MaxConc: 2, MaxRestarts: 1, Deadline: true, Script: 1},
			{W: 4, K: 3, Heights: 1, MaxCalls: 3, MaxConc: 2, MaxRestarts: 1, Crash: true, Script: 2},
			{W: 2, K: 16, Heights: 1, MaxCalls: 3, MaxConc: 2, MaxRestarts: 1},
			{W: 2, K: 2, Heights: 1, MaxCalls: 4, MaxConc: 3, MaxRestarts: 2, Crash: true, Script: 3},
		}
	} else {
		var big []laCfg
		for _, w := range []int{2, 4} {
			for _, k := range []int{1, 2, 3, 4, 16} {
				if w == 4 && k == 16 {
					continue // 2^16 answers per getter call
				}
				for _, hs := range []int{1, 2} {
					if hs == 2 && k > 2 {
						continue
					}
					a := laCfg{W: w, K: k, Heights: hs, MaxCalls: 4, MaxConc: 3, MaxRestarts: 2, Crash: true, Script: (w + k) % 4}
					b := laCfg{W: w, K: k, Heights: hs, MaxCalls: 4, MaxConc: 3, MaxRestarts: 2, Deadline: true, Script: (w + k + 1) % 4}
					if hs == 2 && k == 2 {
						// the largest spaces: one restart, and explored last with whatever budget is left
						a.MaxRestarts, b.MaxRestarts = 1, 1
						big = append(big, a, b)
						continue
					}
					runs = append(runs, a, b)
				}
			}
		}
		runs = append(runs, big...)
	}
	if n := len(runs); n > 0 && rep.Seed != 0 {
		r := int(uint64(rep.Seed) % uint64(n))
		runs = append(runs[r:], runs[:r]...)
	}
	if os.Getenv("VERIF_C03_NO_CRASH") != "" {
		// demonstration knob (never set by bin/check): explore without the crash event
		for i := range runs {
			runs[i].Crash = false
		}
		rep.Set("crash_event_disabled_by_env", true)
	}
	var mu sync.Mutex
	confirmed := map[string]bool{}
	allEvents := map[string]int64{}
	var selfChecked int
	for _, cfg := range runs {
		for h := 1; h <= cfg.Heights; h++ {
			vGetBlock(cfg.W, uint64(h)) // fixtures are built outside bubbles
		}
	}
	for i, cfg := range runs {
		left := time.Until(deadline)
		if left <= 0 {
			exhaustive = false
			rep.Set(fmt.Sprintf("run_%02d", i), map[string]any{"cfg": cfg.String(), "skipped": "budget exhausted"})
			continue
		}
		runDeadline := time.Now().Add(left / time.Duration(len(runs)-i))
		st := vx.BFS(vx.BFSOpts{
			MaxDepth: cfg.Depth,
			Deadline: runDeadline,
			Workers:  vx.Workers(),
			RunInstance: func(f func()) {
				synctest.Test(t, func(*testing.T) { f() })
			},
			Drain: func(s vx.Sys, hist []string) error { return s.(*laSys).drain() },
		}, func() vx.Sys { return newLaSys(cfg) }, func(hist []string, err error) {
			sig := vSig(err)
			if !strings.HasPrefix(sig, "C03/") {
				rep.Infra(fmt.Sprintf("%v hist=%v cfg=%s", err, hist, cfg))
				return
			}
			// believed only if it reproduces 5/5 on fresh instances (once per signature and configuration)
			mu.Lock()
			done := confirmed[cfg.String()+sig]
			confirmed[cfg.String()+sig] = true
			mu.Unlock()
			for k := 0; k < 5 && !done; k++ {
				e2, _ := vRunHistory(t, cfg, hist, true, false)
				if e2 == nil || vSig(e2) != sig {
					rep.Infra(fmt.Sprintf("NONDETERMINISM: %q reported for %v but re-execution %d gave %v", sig, hist, k, e2))
					return
				}
			}
			mu.Lock()
			defer mu.Unlock()
			rep.Violation(sig, err.Error(), map[string]any{"part": "ev", "cfg": cfg, "history": hist})
		})
		if st.Capped != "" || st.DepthCapped {
			exhaustive = false
		}
		rep.Count(st.Replays, int64(st.States), int64(st.States), st.Transitions)
		for k, v := range st.EventCounts {
			allEvents[k] += v
		}
		rep.Set(fmt.Sprintf("run_%02d", i), map[string]any{
			"cfg": cfg.String(), "states": st.States, "transitions": st.Transitions, "depth_completed": st.DepthDone,
			"frontier_emptied": st.Complete, "capped": st.Capped, "depth_capped": st.DepthCapped, "states_per_depth": st.PerDepth,
			"events_applied": st.EventsApplied, "drains": st.States, "violating_transitions": st.Violations,
		})
		for _, h := range st.SampleHist {
			if len(h) >= 3 {
				rep.AddSample(map[string]any{"part": "ev", "cfg": cfg.String(), "history": h})
				break
			}
		}
		// determinism self-check: sampled histories executed twice give identical fingerprints
		for _, h := range st.SampleHist {
			e1, f1 := vRunHistory(t, cfg, h, false, false)
			e2, f2 := vRunHistory(t, cfg, h, false, false)
			if (e1 == nil) != (e2 == nil) || strings.Join(f1, "\n") != strings.Join(f2, "\n") {
				rep.Infra(fmt.Sprintf("NONDETERMINISM: history %v gives different observations on re-execution", h))
			}
			selfChecked++
		}
	}
	vOutMu.Lock()
	outc := map[string]int64{}
	for k, v := range vOutcomes {
		outc[k] = v
	}
	vOutMu.Unlock()
	nFirst := 0
	vFirstSets.Range(func(_, _ any) bool { nFirst++; return true })
	rep.Set("event_class_counts", allEvents)
	rep.Set("call_outcomes_over_all_executions", outc)
	rep.Set("distinct_call_outcomes", len(outc))
	rep.Set("positive_controls_honest_retry_accepted", vDrainAcc.Load())
	rep.Set("honest_retry_not_accepted", vDrainRej.Load())
	rep.Set("distinct_first_drawn_sets_ev", nFirst)
	rep.Set("determinism_selfchecks", selfChecked)
	rep.Set("fixture_samples_verified", vFixtureVerified)
	rep.Set("reads_of_crypto_rand_outside_harness_goroutines", vForeignReads.Load())
	rep.Set("explanation", "part B is exhaustive for a configuration when frontier_emptied is true (every history within the call/restart bounds); part A when Complete is true for every draw run")
	if len(runs) > 0 && vDrainAcc.Load() == 0 && rep.Violations() == 0 {
		rep.Infra("vacuous: no honest retry was ever accepted")
	}
	if outc["available"] == 0 && len(runs) > 0 && rep.Violations() == 0 {
		rep.Infra("vacuous: no explored call ever returned available")
	}
	// SC part: the per-height session gate under every interleaving (sessions_sc_test.go)
	exhaustive = vsessSC(t, rep, deadline.Add(20*time.Second)) && exhaustive
	rep.SetExhaustive(exhaustive)
	if rep.Finish() > 0 {
		t.Fail()
	}
}

func replayC03(t *testing.T, rep *vx.Report, path string) {
	b, err := os.ReadFile(path)
	if err != nil {
		t.Fatalf("replay: %v", err)
	}
	var doc struct {
		Signature string `json:"signature"`
		Replay    struct {
			Part    string   `json:"part"`
			Cfg     laCfg    `json:"cfg"`
			History []string `json:"history"`
			W       int      `json:"w"`
			K       int      `json:"k"`
			Alph    int      `json:"alphabet"`
			Budget  int      `json:"byte_budget"`
			Bytes   string   `json:"reader_bytes"`
		} `json:"replay"`
	}
	if err := json.Unmarshal(b, &doc); err != nil {
		t.Fatalf("replay: %v", err)
	}
	if doc.Replay.Part == "ladder" || doc.Replay.Part == "ladder-case" {
		runs, _ := vLadderWidth(rep, doc.Replay.W, rep.Tier == "quick", time.Time{})
		for _, st := range runs {
			fmt.Printf("REPLAY-RESULT ladder %+v\n", st)
			rep.Count(st.Executions, 1, 0, 0)
		}
		rep.SetExhaustive(false)
		rep.Finish()
		return
	}
	if doc.Replay.Part == "draw" {
		if doc.Replay.Bytes != "" {
			var bs []byte
			for _, f := range strings.Fields(strings.Trim(doc.Replay.Bytes, "[]")) {
				n, _ := strconv.Atoi(f)
				bs = append(bs, byte(n))
			}
			for i := 0; i < 5; i++ {
				res, trunc, pan := vDraw(&vTreeReader{l: len(bs), forced: bs}, doc.Replay.W, doc.Replay.K)
				fmt.Printf("REPLAY-RESULT draw(w=%d,k=%d) under bytes %v -> %v truncated=%v panic=%v\n", doc.Replay.W, doc.Replay.K, bs, res, trunc, pan)
			}
		} else {
			st := vDrawTree(rep, doc.Replay.W, doc.Replay.K, doc.Replay.Alph, doc.Replay.Budget, time.Time{})
			fmt.Printf("REPLAY-RESULT draw tree %+v\n", st)
			rep.Count(st.Executions, int64(st.Sets), 0, 0)
		}
		rep.SetExhaustive(false)
		rep.Finish()
		return
	}
	var verr error
	for i := 0; i < 5; i++ {
		e, _ := vRunHistory(t, doc.Replay.Cfg, doc.Replay.History, true, i == 0)
		if i > 0 && (e == nil) != (verr == nil) {
			t.Fatalf("NONDETERMINISM: replay %d gave %v, earlier %v", i, e, verr)
		}
		verr = e
	}
	rep.Count(5, 1, 1, int64(len(doc.Replay.History)))
	rep.AddSample(doc.Replay.History)
	rep.SetExhaustive(false)
	if verr != nil {
		fmt.Printf("REPLAY-RESULT violation reproduced 5/5: %v\n", verr)
		rep.Violation(vSig(verr), verr.Error(), doc.Replay)
	} else {
		fmt.Println("REPLAY-RESULT no violation")
	}
	rep.Finish()
}
