package light

// C03, SC part: the per-height session gate (libs/utils.Sessions) under every interleaving.
// `sync` in libs/utils is import-rewritten, so every sync.Map operation of StartSession and of
// the release function is a scheduling point. Threads start and end sessions on colliding and
// distinct keys, one waiter is cancelled. Oracle: never two sessions active for one key; every
// StartSession returns (fair scheduling: the loser of LoadOrStore retries until the holder has
// deleted the entry); a cancelled waiter returns the context error without entering; when
// everything has ended the gate is empty.

import (
	"context"
	"fmt"
	"runtime"
	"runtime/debug"
	"strings"
	"testing"
	"testing/synctest"
	"time"

	"github.com/celestiaorg/celestia-node/libs/utils"
	"github.com/celestiaorg/celestia-node/verifx/vsched"
	"github.com/celestiaorg/celestia-node/verifx/vx"
)

type vsessScenario struct {
	Name string
	// per thread: list of keys to start+end sessions on, in order; "!" prefix = this StartSession
	// gets a context that the harness cancels while it waits
	Threads [][]string
}

func vsessScenarios(tier string) []vsessScenario {
	sc := []vsessScenario{
		{"two-same-key", [][]string{{"h1"}, {"h1"}}},
		{"three-same-key", [][]string{{"h1"}, {"h1"}, {"h1"}}},
		{"reenter-vs-waiter", [][]string{{"h1", "h1"}, {"h1"}}},
		{"two-keys", [][]string{{"h1", "h2"}, {"h2", "h1"}}},
		{"cancelled-waiter", [][]string{{"h1"}, {"!h1"}, {"h1"}}},
	}
	if tier == "thorough" {
		sc = append(sc,
			vsessScenario{"three-threads-two-keys", [][]string{{"h1", "h2"}, {"h2", "h1"}, {"h1"}}},
			vsessScenario{"reenter-reenter", [][]string{{"h1", "h1"}, {"h1", "h1"}}},
		)
	}
	return sc
}

func vsessRun(t *testing.T, sc vsessScenario, e *vx.Exec) (err error) {
	var leaked any
	func() {
		defer func() { leaked = recover() }()
		synctest.Test(t, func(*testing.T) {
			s := utils.NewSessions()
			sch := vsched.New(e.ChooseCost)
			sch.MaxSteps = 4000
			sch.FairAfter = 6
			active := map[string]int{}
			fail := func(f string, a ...any) {
				if err == nil {
					err = fmt.Errorf(f, a...)
				}
			}
			var cancels []context.CancelFunc
			waitingCancellable := 0
			cancellableThread := ""
			for ti, keys := range sc.Threads {
				ti, keys := ti, keys
				sch.Go(fmt.Sprintf("T%d", ti), func() {
					for _, k := range keys {
						ctx := context.Background()
						cancellable := strings.HasPrefix(k, "!")
						k = strings.TrimPrefix(k, "!")
						if cancellable {
							var cancel context.CancelFunc
							ctx, cancel = context.WithCancel(ctx)
							sch.Update(func() {
								cancels = append(cancels, cancel)
								waitingCancellable++
								cancellableThread = fmt.Sprintf("T%d", ti)
							})
						}
						end, serr := s.StartSession(ctx, k)
						if cancellable {
							sch.Update(func() { waitingCancellable-- })
						}
						if serr != nil {
							if !cancellable {
								fail("C03/sessions/unexpected-error: StartSession(%s) returned %v", k, serr)
							}
							continue
						}
						sch.Update(func() {
							active[k]++
							if active[k] > 1 {
								fail("C03/sessions/two-active: two sessions are active for key %s at the same time", k)
							}
						})
						vsched.Yield("in-session")
						sch.Update(func() { active[k]-- })
						end()
					}
				})
			}
			// cancel the cancellable waiter only once it is really blocked (nothing else can run)
			sch.AddAction(vsched.ExtraAction{Name: "cancel", Idle: true, Enabled: func() bool { return waitingCancellable > 0 && len(cancels) > 0 }, Do: func() {
				for _, c := range cancels {
					c()
				}
				cancels = nil
			}})
			// also allow cancelling early (while the holder is still in its session) - but only once
			// the waiter is really blocked in StartSession's select: cancelling before it gets there
			// would leave Go's select to choose at random between the released session and the
			// cancelled context, which no schedule can own
			sch.AddAction(vsched.ExtraAction{Name: "cancel-early", Enabled: func() bool {
				return waitingCancellable > 0 && len(cancels) > 0 && sch.BlockedUnhooked(cancellableThread)
			}, Do: func() {
				for _, c := range cancels {
					c()
				}
				cancels = nil
			}})
			res := sch.Run()
			if res.Deadlock {
				fail("C03/sessions/deadlock: %s", res.Stuck)
			}
			if res.Horizon {
				fail("C03/sessions/no-termination: a StartSession call did not return within %d scheduling steps under fair scheduling", sch.MaxSteps)
			}
			if err == nil {
				// the gate is empty again: a fresh session on every key starts at once
				for _, k := range []string{"h1", "h2"} {
					ctx, cancel := context.WithCancel(context.Background())
					cancel()
					end, serr := s.StartSession(ctx, k)
					if serr != nil {
						fail("C03/sessions/leftover-entry: after every session ended key %s is still held", k)
					} else {
						end()
					}
				}
			}
		})
	}()
	if leaked != nil && err == nil {
		err = fmt.Errorf("harness: bubble did not end cleanly: %v", leaked)
	}
	return err
}

func vsessSC(t *testing.T, rep *vx.Report, deadline time.Time) bool {
	debug.SetGCPercent(-1)
	prev := runtime.GOMAXPROCS(1)
	defer func() { runtime.GOMAXPROCS(prev); debug.SetGCPercent(100) }()
	exhaustive := true
	bounds := []int{0, 1, 2}
	if rep.Tier == "thorough" {
		bounds = []int{0, 1, 2, 3}
	}
	for _, sc := range vsessScenarios(rep.Tier) {
		sc := sc
		completed := -1
		var total, points int64
		outcomes := map[string]int64{}
		for _, b := range bounds {
			st := vx.DFS(vx.DFSOpts{Bound: b, Deadline: deadline}, func(e *vx.Exec) (string, error) {
				err := vsessRun(t, sc, e)
				if err != nil {
					return "ERR", err
				}
				return fmt.Sprint(len(e.Choices)), nil
			}, func(e *vx.Exec, err error) {
				msg := err.Error()
				sig := msg
				if i := strings.Index(msg, ":"); i > 0 {
					sig = msg[:i]
				}
				if strings.HasPrefix(sig, "harness") || strings.HasPrefix(sig, "DIVERGENCE") {
					rep.Infra(fmt.Sprintf("%v scenario=%s", err, sc.Name))
					return
				}
				rep.Violation(sig, msg, map[string]any{"part": "sessions-sc", "scenario": sc, "choices": e.Choices, "trace": e.Trace()})
			})
			total, points = st.Executions, st.ChoicePoints
			for k, v := range st.Outcomes {
				outcomes[k] = v
			}
			if !st.Complete {
				exhaustive = false
				break
			}
			completed = b
		}
		rep.Count(total, int64(len(outcomes)), int64(len(outcomes)), points)
		rep.Set("sessions_sc_"+sc.Name, map[string]any{"threads": sc.Threads, "preemption_bound_completed": completed,
			"schedules_at_last_bound": total, "scheduling_decisions": points})
	}
	return exhaustive
}
