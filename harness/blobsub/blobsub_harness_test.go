package blob

// Verification harness for C20 (blob subscriptions deliver every block once, in order, with the
// right blobs, and end exactly when they should).
//
// It drives the REAL blob.Service.Subscribe (constructed with blob.NewService) inside a
// testing/synctest bubble, one environment event at a time. The header feed, the header getter
// and the share getter are fakes whose blocking calls return only when the explorer picks the
// answer; cancellation is an answer, not an automatic wake-up. The blocks behind the headers are
// real extended data squares built from reference blobs, so "the right blobs" is judged against
// the blobs the block was built from.

import (
	"bytes"
	"context"
	"encoding/json"
	"errors"
	"fmt"
	"os"
	"strconv"
	"strings"
	"sync"
	"sync/atomic"
	"testing"
	"testing/synctest"
	"time"

	logging "github.com/ipfs/go-log/v2"

	"github.com/celestiaorg/celestia-app/v9/pkg/wrapper"
	libshare "github.com/celestiaorg/go-square/v4/share"
	"github.com/celestiaorg/rsmt2d"

	"github.com/celestiaorg/celestia-node/header"
	"github.com/celestiaorg/celestia-node/header/headertest"
	"github.com/celestiaorg/celestia-node/share"
	"github.com/celestiaorg/celestia-node/share/eds"
	"github.com/celestiaorg/celestia-node/share/shwap"
	"github.com/celestiaorg/celestia-node/verifx/vx"
)

// ---------------------------------------------------------------- configuration

const (
	vsubBufCap    = 16 // the capacity the property states
	vsubMaxBlocks = 24
)

type vsubCfg struct {
	Name string `json:"name"`
	// Subs subscriptions, subscription i on namespace i (different namespaces)
	Subs int `json:"subs"`
	// Prefill is a scripted stalled prefix: that many headers are delivered to every
	// subscription and retrieved successfully while the consumer reads nothing.
	Prefill int `json:"prefill"`
	// Headers is the number of further headers the search may deliver.
	Headers int `json:"headers"`
	// Feed: "" = the feed carries heights 1,2,3,...; "gappy" = the feed itself skips heights
	// (2,3,5,6,8,...): the stream must mirror the feed, whatever its heights are
	Feed string `json:"feed"`
	// Answers allowed for a pending retrieval ("ok","fail","nf")
	Answers []string `json:"answers"`
	// HdrGetterBlocks: the header getter used inside a retrieval is a blocking, failing
	// collaborator too (answers ok/fail), not only the share getter.
	HdrGetterBlocks bool `json:"hdr_getter_blocks"`
	// SameNS: every subscription is on namespace 0, so retrievals of the same (height, namespace)
	// overlap whenever two subscriptions hold the same header
	SameNS bool `json:"same_ns"`
	// GetAlls: how many times Service.GetAll(height, namespace 0) may be started concurrently with
	// subscription 0, for the height subscription 0 is retrieving (or will retrieve next)
	GetAlls int `json:"getalls"`
	// LateSubs: subscriptions are not opened at configuration time but by the event sub:i
	LateSubs bool `json:"late_subs"`
	// Lifecycle > 0: Stop and Start of the ONE service instance are events that may occur in any
	// state (Stop twice, Start twice without Stop, Stop then Start = restart), at most that many
	// lifecycle events per history
	Lifecycle int `json:"lifecycle"`
	// event switches
	Cancel  bool `json:"cancel"`
	Stop    bool `json:"stop"`
	FClose  bool `json:"fclose"`
	HdrStop bool `json:"hdrstop"`
	Depth   int  `json:"depth"`
}

func (c vsubCfg) String() string {
	return fmt.Sprintf("%s: feed=%s late-subs=%v lifecycle-events<=%d same-ns=%v getalls=%d subs=%d prefill=%d headers=%d answers=%s hdrgetter-blocks=%v cancel=%v stop=%v fclose=%v hdrstop=%v depth<=%d",
		c.Name, c.feedName(), c.LateSubs, c.Lifecycle, c.SameNS, c.GetAlls, c.Subs, c.Prefill, c.Headers, strings.Join(c.Answers, "/"), c.HdrGetterBlocks, c.Cancel, c.Stop, c.FClose, c.HdrStop, c.Depth)
}

func (c vsubCfg) feedName() string {
	if c.Feed == "" {
		return "consecutive"
	}
	return c.Feed
}

// nsOf is the index of the namespace subscription i is on.
func (c vsubCfg) nsOf(i int) int {
	if c.SameNS {
		return 0
	}
	return i
}

// feedHeights lists the heights the feed carries, in order.
func (c vsubCfg) feedHeights() []int {
	var out []int
	for h := 1; h <= vsubMaxBlocks; h++ {
		if c.Feed == "gappy" && h%3 == 1 {
			continue
		}
		out = append(out, h)
	}
	return out
}

// ---------------------------------------------------------------- the chain (built once, outside any bubble)

type vsubBlock struct {
	hdr *header.ExtendedHeader
	// per subscribed namespace: the blobs the block was built from, in block order
	ref [][]*Blob
	// per subscribed namespace: what an honest getter returns
	nd []shwap.NamespaceData
}

type vsubChain struct {
	ns     []libshare.Namespace // namespaces 0,1 are subscribed to; 2 is noise
	blocks []*vsubBlock         // blocks[h-1] is height h
}

var (
	vsubChainOnce sync.Once
	vsubTheChain  *vsubChain
	vsubChainErr  error
)

func vsubData(h int, ns string, k int, size int) []byte {
	pat := []byte(fmt.Sprintf("<height=%d ns=%s blob=%d>", h, ns, k))
	return bytes.Repeat(pat, size/len(pat)+1)[:size]
}

// vsubBuildChain builds vsubMaxBlocks real blocks. The layout cycles with the height:
//
//	h%4==1: ns0 one blob,  ns1 one blob
//	h%4==2: ns0 two blobs (the second spans several shares), ns1 none, noise one blob
//	h%4==3: ns0 none, ns1 one blob spanning several shares
//	h%4==0: ns0 none, ns1 none, noise one blob
//
// Every blob's data names its height, so a response carrying the blobs of another height is visible.
func vsubBuildChain(t *testing.T) (*vsubChain, error) {
	c := &vsubChain{}
	for _, b := range []byte{0xA1, 0xB2, 0xC3} {
		ns, err := libshare.NewV0Namespace(bytes.Repeat([]byte{b}, 10))
		if err != nil {
			return nil, err
		}
		c.ns = append(c.ns, ns)
	}
	mk := func(nsi, h, k, size int) (*Blob, error) {
		return NewBlob(libshare.ShareVersionZero, c.ns[nsi], vsubData(h, string(rune('A'+nsi)), k, size), nil)
	}
	var squares []*rsmt2d.ExtendedDataSquare
	refs := make([][][]*Blob, 0, vsubMaxBlocks)
	for h := 1; h <= vsubMaxBlocks; h++ {
		per := make([][]*Blob, 3)
		add := func(nsi, k, size int) error {
			b, err := mk(nsi, h, k, size)
			if err != nil {
				return err
			}
			per[nsi] = append(per[nsi], b)
			return nil
		}
		var err error
		switch h % 4 {
		case 1:
			err = errors.Join(add(0, 0, 40), add(1, 0, 70))
		case 2:
			err = errors.Join(add(0, 0, 25), add(0, 1, 1100), add(2, 0, 30))
		case 3:
			err = add(1, 0, 900)
		case 0:
			err = add(2, 0, 33)
		}
		if err != nil {
			return nil, err
		}
		// shares in namespace order, blobs of one namespace in the order given (= block order)
		var shares []libshare.Share
		for nsi := 0; nsi < 3; nsi++ {
			for _, b := range per[nsi] {
				sh, err := b.ToShares()
				if err != nil {
					return nil, err
				}
				shares = append(shares, sh...)
			}
		}
		ods := 1
		for ods*ods < len(shares) {
			ods *= 2
		}
		for len(shares) < ods*ods {
			shares = append(shares, libshare.TailPaddingShare())
		}
		sq, err := rsmt2d.ComputeExtendedDataSquare(libshare.ToBytes(shares), share.DefaultRSMT2DCodec(), wrapper.NewConstructor(uint64(ods)))
		if err != nil {
			return nil, err
		}
		squares = append(squares, sq)
		refs = append(refs, per)
	}
	hdrs := headertest.ExtendedHeadersFromEdsses(t, squares)
	for i, sq := range squares {
		blk := &vsubBlock{hdr: hdrs[i]}
		acc := &eds.Rsmt2D{ExtendedDataSquare: sq}
		for nsi := 0; nsi < 2; nsi++ {
			nd, err := eds.NamespaceData(context.Background(), acc, c.ns[nsi])
			if err != nil {
				return nil, err
			}
			blk.nd = append(blk.nd, nd)
			blk.ref = append(blk.ref, refs[i][nsi])
		}
		c.blocks = append(c.blocks, blk)
	}
	return c, nil
}

func vsubCopyND(nd shwap.NamespaceData) shwap.NamespaceData {
	out := make(shwap.NamespaceData, len(nd))
	for i, r := range nd {
		out[i] = shwap.RowNamespaceData{Shares: append([]libshare.Share(nil), r.Shares...), Proof: r.Proof}
	}
	return out
}

// ---------------------------------------------------------------- fakes

type vsubKey struct{}

const vsubGAIdx = 100 // caller id of the concurrent Service.GetAll

type vsubAns struct {
	nd  shwap.NamespaceData
	hdr *header.ExtendedHeader
	err error
}

type vsubCall struct {
	kind   string // "nd" share getter, "hg" header getter
	sub    int    // calling subscription, or vsubGAIdx for the concurrent GetAll
	nsi    int    // namespace index
	height uint64
	ctx    context.Context
	ans    chan vsubAns
}

// share getter: only GetNamespaceData is used by subscriptions
type vsubGetter struct{ s *vsubSys }

func (g vsubGetter) GetSamples(context.Context, *header.ExtendedHeader, []shwap.SampleCoords) ([]shwap.Sample, error) {
	panic("verif: unused")
}
func (g vsubGetter) GetEDS(context.Context, *header.ExtendedHeader) (*rsmt2d.ExtendedDataSquare, error) {
	panic("verif: unused")
}
func (g vsubGetter) GetRow(context.Context, *header.ExtendedHeader, int) (shwap.Row, error) {
	panic("verif: unused")
}
func (g vsubGetter) GetRangeNamespaceData(context.Context, *header.ExtendedHeader, int, int) (shwap.RangeNamespaceData, error) {
	panic("verif: unused")
}

func (g vsubGetter) GetNamespaceData(ctx context.Context, h *header.ExtendedHeader, ns libshare.Namespace) (shwap.NamespaceData, error) {
	nsi := -1
	for i, n := range g.s.chain.ns[:2] {
		if n.Equals(ns) {
			nsi = i
		}
	}
	sub := -1
	if v, ok := ctx.Value(vsubKey{}).(int); ok {
		sub = v
	} else if !g.s.cfg.SameNS {
		sub = nsi
	}
	if nsi < 0 {
		g.s.fail("harness: share getter asked for an unknown namespace")
		return nil, errors.New("verif: unknown namespace")
	}
	a := g.s.block(&vsubCall{kind: "nd", sub: sub, nsi: nsi, height: h.Height(), ctx: ctx, ans: make(chan vsubAns)})
	return a.nd, a.err
}

// header getter
func (s *vsubSys) headerGetter(ctx context.Context, height uint64) (*header.ExtendedHeader, error) {
	if height == 0 || int(height) > len(s.chain.blocks) {
		return nil, fmt.Errorf("verif: no header at height %d", height)
	}
	if !s.cfg.HdrGetterBlocks {
		return s.chain.blocks[height-1].hdr, nil
	}
	sub, _ := ctx.Value(vsubKey{}).(int)
	nsi := 0
	if sub != vsubGAIdx {
		nsi = s.cfg.nsOf(sub)
	}
	a := s.block(&vsubCall{kind: "hg", sub: sub, nsi: nsi, height: height, ctx: ctx, ans: make(chan vsubAns)})
	return a.hdr, a.err
}

// block registers a collaborator call and parks the caller until the explorer answers it.
func (s *vsubSys) block(c *vsubCall) vsubAns {
	s.mu.Lock()
	if c.sub == vsubGAIdx {
		ga := &s.ga
		switch {
		case !ga.running:
			s.failLocked("harness: GetAll collaborator call while no GetAll runs")
		case ga.pending != nil:
			s.failLocked("harness: GetAll has two collaborator calls in flight")
		case int(c.height) != ga.height || c.nsi != 0:
			s.failLocked("C20/getall/retrieval-of-wrong-height: GetAll(%d) retrieves height %d namespace %d", ga.height, c.height, c.nsi)
		}
		ga.pending = c
		s.mu.Unlock()
		return <-c.ans
	}
	if c.sub < 0 || c.sub >= len(s.subs) {
		s.failLocked("harness: collaborator call for unknown subscription (%s height %d)", c.kind, c.height)
		s.mu.Unlock()
		return vsubAns{err: errors.New("verif: unknown subscription")}
	}
	sb := s.subs[c.sub]
	if sb.pending != nil {
		s.failLocked("C20/concurrent-retrievals: subscription %d starts a retrieval of height %d while its retrieval of height %d is still running", c.sub, c.height, sb.pending.height)
	}
	sb.pending = c
	// one retrieval attempt = one getAll = (header getter call,) share getter call
	if c.kind == "hg" || !s.cfg.HdrGetterBlocks {
		sb.attempts++
		if sb.stopSeen || sb.cancelled {
			sb.late++
		}
	}
	if c.nsi != s.cfg.nsOf(c.sub) {
		s.failLocked("C20/retrieval-of-wrong-namespace: subscription %d retrieves namespace %d", c.sub, c.nsi)
	}
	if sb.taken == 0 || int(c.height) != s.feed[sb.taken-1] {
		s.failLocked("C20/retrieval-of-wrong-height: subscription %d retrieves height %d, which is not the header it took last (#%d of the feed)", c.sub, c.height, sb.taken)
	}
	s.mu.Unlock()
	return <-c.ans
}

// ---------------------------------------------------------------- the system

type vsubSub struct {
	idx    int
	ctx    context.Context
	cancel context.CancelFunc
	feed   chan *header.ExtendedHeader
	ch     <-chan *SubscriptionResponse

	created   bool // Subscribe was called
	stopSeen  bool // the service was stopped (or was not running) at some moment of the stream's life
	swapped   bool // Start was called on the running service while the stream was live
	restarted bool // the service was started again after the stop the stream saw

	taken      int // number of headers of the feed handed to the subscription
	readN      int // responses the consumer has read so far
	cancelled  bool
	fclosed    bool
	overflowed bool // a header arrived while 16 responses were unread
	closed     bool // the consumer has seen the channel closed
	attempts   int
	lastAns    map[int]string // height -> kind of the last answer its own retrieval of that height got
	late       int            // retrieval attempts started after cancel / service stop
	pending    *vsubCall
}

func (sb *vsubSub) terminated() bool {
	return sb.stopSeen || sb.cancelled || sb.fclosed || sb.overflowed
}

func (sb *vsubSub) cause() string {
	switch {
	case sb.overflowed:
		return "overflow"
	case sb.cancelled:
		return "cancel"
	case sb.stopSeen && sb.swapped:
		return "service-stop/start-called-twice-before"
	case sb.stopSeen && sb.restarted:
		return "service-stop/restarted-since"
	case sb.stopSeen:
		return "service-stop"
	case sb.fclosed:
		return "feed-close"
	}
	return "none"
}

// vsubGA is the Service.GetAll call running concurrently with the subscriptions.
type vsubGA struct {
	started int
	running bool
	height  int
	cancel  context.CancelFunc
	pending *vsubCall
	done    chan vsubGARes
	failed  string // failure answers given, while it runs, to any retrieval of its (height, namespace)
	last    string // kind of the last answer to its own collaborator call
	okN     int    // results accepted
	errN    int    // errors accepted (a failure answer had been given)
}

type vsubGARes struct {
	blobs []*Blob
	err   error
}

type vsubSys struct {
	cfg   vsubCfg
	chain *vsubChain
	feed  []int // heights carried by the feed, in order
	svc   *Service

	mu      sync.Mutex
	subs    []*vsubSub
	ga      vsubGA
	failed  map[int]string // namespace*1000+height -> kinds of failure answers given to retrievals of it
	stopped bool           // the service is not running
	life    int            // lifecycle events (stop/start) applied so far
	feeds   chan chan *header.ExtendedHeader
	err     error

	// set by Check (the non-perturbing part of an observation)
	snap        string
	snapOverlap bool // two retrievals of the same (height, namespace) were in flight / joined in the snapshot
	enabledSnap []string
	probed      bool
	trace       bool
}

// statistics shared by all instances of a run
type vsubStats struct {
	readsOK       atomic.Int64 // positive control: responses accepted by the oracle
	getAllsOK     atomic.Int64 // positive control: concurrent GetAll results accepted
	overlaps      atomic.Int64 // distinct states with two retrievals of the same (height, namespace) in flight or joined
	drainsDone    atomic.Int64 // positive control: fair continuation delivered every header
	mu            sync.Mutex
	outcomes      map[string]int64 // stream outcome of every distinct state
	feedCloseBusy int64            // states with a closed feed and a retrieval still running (judged leniently)
}

var vsubRunStats = &vsubStats{outcomes: map[string]int64{}}

func (s *vsubSys) failLocked(format string, a ...any) {
	if s.err == nil {
		s.err = fmt.Errorf(format, a...)
	}
}

func (s *vsubSys) fail(format string, a ...any) {
	s.mu.Lock()
	s.failLocked(format, a...)
	s.mu.Unlock()
}

func (s *vsubSys) total() int { return s.cfg.Prefill + s.cfg.Headers }

func newVsubSys(cfg vsubCfg, chain *vsubChain) *vsubSys {
	s := &vsubSys{cfg: cfg, chain: chain, feed: cfg.feedHeights(), failed: map[int]string{}}
	feeds := make(chan chan *header.ExtendedHeader, cfg.Subs)
	s.feeds = feeds
	headerSub := func(ctx context.Context) (<-chan *header.ExtendedHeader, error) {
		f := make(chan *header.ExtendedHeader) // unbuffered, like nodebuilder/header.Service.Subscribe
		feeds <- f
		return f, nil
	}
	s.svc = NewService(nil, vsubGetter{s}, s.headerGetter, headerSub)
	if err := s.svc.Start(context.Background()); err != nil {
		s.fail("harness: Start: %v", err)
		return s
	}
	for i := 0; i < cfg.Subs; i++ {
		s.subs = append(s.subs, &vsubSub{idx: i})
	}
	for i := 0; i < cfg.Subs && !cfg.LateSubs; i++ {
		if !s.subscribe(i) {
			return s
		}
	}
	synctest.Wait()
	// scripted stalled prefix
prefill:
	for k := 0; k < cfg.Prefill && s.err == nil; k++ {
		for i, sb := range s.subs {
			s.applyQuiet(fmt.Sprintf("hdr:%d", i))
			if sb.pending == nil {
				break prefill // the stream did not start a retrieval: judged by the state probe
			}
			for n := 0; n < 2 && sb.pending != nil; n++ {
				s.applyQuiet(fmt.Sprintf("ans:%d:ok", i))
			}
		}
	}
	return s
}

// subscribe opens subscription i on the service as it is now.
func (s *vsubSys) subscribe(i int) bool {
	sb := s.subs[i]
	ctx, cancel := context.WithCancel(context.WithValue(context.Background(), vsubKey{}, i))
	sb.ctx, sb.cancel = ctx, cancel
	ch, err := s.svc.Subscribe(ctx, s.chain.ns[s.cfg.nsOf(i)])
	if err != nil {
		s.fail("harness: Subscribe: %v", err)
		return false
	}
	s.mu.Lock()
	sb.created = true
	sb.stopSeen = s.stopped // a stream opened on a stopped service has its reason to end from the start
	s.mu.Unlock()
	sb.ch = ch
	sb.feed = <-s.feeds
	if cap(ch) != vsubBufCap {
		s.fail("C20/buffer-capacity: the response channel holds %d responses, the property states %d", cap(ch), vsubBufCap)
	}
	return true
}

// markStopped (s.mu held): the service stops now; every open stream has its reason to end.
func (s *vsubSys) markStopped() {
	s.life++
	s.stopped = true
	for _, o := range s.subs {
		if o.created {
			o.stopSeen = true
		}
	}
}

func (s *vsubSys) applyQuiet(ev string) {
	if s.err != nil {
		return
	}
	_ = s.Apply(ev)
}

func (s *vsubSys) hdrEnabled(sb *vsubSub) bool {
	return sb.created && !sb.terminated() && !s.busy(sb) && sb.taken < s.total() && sb.taken < len(s.feed)
}

// joined: the subscription owes a response for its last header, has no collaborator call of its
// own in flight, but another retrieval of the same (height, namespace) is in flight - an
// implementation that coalesces identical retrievals may legitimately be waiting for that one.
func (s *vsubSys) joined(sb *vsubSub) bool {
	if sb.pending != nil || sb.taken == 0 || sb.overflowed || sb.readN+len(sb.ch) >= sb.taken {
		return false
	}
	h, nsi := s.feed[sb.taken-1], s.cfg.nsOf(sb.idx)
	for _, o := range s.subs {
		if o != sb && o.pending != nil && int(o.pending.height) == h && o.pending.nsi == nsi {
			return true
		}
	}
	return s.ga.pending != nil && s.ga.height == h && nsi == 0
}

// busy: a retrieval for the subscription's last header is (or may be) running.
func (s *vsubSys) busy(sb *vsubSub) bool { return sb.pending != nil || s.joined(sb) }

// gaTarget is the height a GetAll started now asks for: the height subscription 0 is retrieving,
// else the height it will be handed next.
func (s *vsubSys) gaTarget() int {
	sb := s.subs[0]
	if s.busy(sb) {
		return s.feed[sb.taken-1]
	}
	if sb.taken < s.total() && sb.taken < len(s.feed) {
		return s.feed[sb.taken]
	}
	return 0
}

// gaJoined: the GetAll has no collaborator call of its own but a subscription retrieves the same thing.
func (s *vsubSys) gaJoined() bool {
	if !s.ga.running || s.ga.pending != nil {
		return false
	}
	for _, o := range s.subs {
		if o.pending != nil && int(o.pending.height) == s.ga.height && o.pending.nsi == 0 {
			return true
		}
	}
	return false
}

func (s *vsubSys) noteFailure(c *vsubCall, kind string) {
	k := c.nsi*1000 + int(c.height)
	if !strings.Contains(s.failed[k], kind) {
		s.failed[k] += kind + " "
	}
	if s.ga.running && c.nsi == 0 && int(c.height) == s.ga.height && !strings.Contains(s.ga.failed, kind) {
		s.ga.failed += kind + " "
	}
}

func (s *vsubSys) Enabled() []string {
	if s.probed {
		return s.enabledSnap
	}
	return s.enabledNow()
}

func (s *vsubSys) enabledNow() []string {
	s.mu.Lock()
	defer s.mu.Unlock()
	if s.err != nil {
		return nil
	}
	var ev []string
	live := false
	for i, sb := range s.subs {
		if !sb.created {
			if s.cfg.LateSubs {
				ev = append(ev, fmt.Sprintf("sub:%d", i))
			}
			continue
		}
		if sb.pending != nil {
			c := sb.pending
			for _, a := range s.cfg.Answers {
				if c.kind == "hg" && a == "nf" {
					continue
				}
				ev = append(ev, fmt.Sprintf("ans:%d:%s", i, a))
			}
			if c.ctx.Err() != nil {
				ev = append(ev, fmt.Sprintf("ans:%d:ctx", i))
			}
		}
		if s.hdrEnabled(sb) {
			ev = append(ev, fmt.Sprintf("hdr:%d", i))
			if s.cfg.HdrStop && !s.stopped && (s.cfg.Lifecycle == 0 || s.life < s.cfg.Lifecycle) {
				ev = append(ev, fmt.Sprintf("hdrstop:%d", i))
			}
		}
		if len(sb.ch) > 0 {
			ev = append(ev, fmt.Sprintf("read:%d", i))
		}
		if !sb.terminated() {
			live = true
			if s.cfg.Cancel {
				ev = append(ev, fmt.Sprintf("cancel:%d", i))
			}
			if s.cfg.FClose {
				ev = append(ev, fmt.Sprintf("fclose:%d", i))
			}
		}
	}
	if s.cfg.Lifecycle > 0 {
		if s.life < s.cfg.Lifecycle {
			ev = append(ev, "stop", "start") // also Stop on a stopped and Start on a running service
		}
	} else if s.cfg.Stop && !s.stopped && live {
		ev = append(ev, "stop")
	}
	if s.ga.pending != nil {
		for _, a := range s.cfg.Answers {
			if a != "nf" { // GetAll's own not-found answer is the known finding, see KNOWN_FINDINGS.txt
				ev = append(ev, "gans:"+a)
			}
		}
	}
	if !s.ga.running && s.ga.started < s.cfg.GetAlls && live && s.gaTarget() > 0 {
		ev = append(ev, "gastart")
	}
	return ev
}

func (s *vsubSys) Apply(ev string) error {
	if s.err != nil {
		return s.err
	}
	s.snap = ""
	parts := strings.Split(ev, ":")
	var sb *vsubSub
	if len(parts) > 1 && parts[0] != "gans" {
		i, err := strconv.Atoi(parts[1])
		if err != nil || i < 0 || i >= len(s.subs) {
			return fmt.Errorf("harness: bad event %q", ev)
		}
		sb = s.subs[i]
	}
	switch parts[0] {
	case "hdr", "hdrstop":
		s.mu.Lock()
		if len(sb.ch) == vsubBufCap {
			// the subscriber is a full buffer behind at the moment a new header arrives
			sb.overflowed = true
		}
		if parts[0] == "hdrstop" {
			// a header and the service stop arrive together and the subscription's select takes
			// the header: hand the header over (which commits the select), stop at once
			s.markStopped()
		}
		h := s.chain.blocks[s.feed[sb.taken]-1].hdr
		sb.taken++
		s.mu.Unlock()
		select {
		case sb.feed <- h:
		default:
			s.fail("C20/stalled: subscription %d is neither retrieving nor terminated but does not take header %d (read %d, buffered %d)",
				sb.idx, sb.taken, sb.readN, len(sb.ch))
			return s.err
		}
		if parts[0] == "hdrstop" {
			_ = s.svc.Stop(context.Background())
		}
	case "ans":
		s.mu.Lock()
		c := sb.pending
		sb.pending = nil
		s.mu.Unlock()
		if c == nil {
			return fmt.Errorf("harness: no pending call for %q", ev)
		}
		a, err := s.answerFor(c, parts[2])
		if err != nil {
			return err
		}
		c.ans <- a
	case "gans":
		s.mu.Lock()
		c := s.ga.pending
		s.ga.pending = nil
		s.mu.Unlock()
		if c == nil {
			return fmt.Errorf("harness: no pending GetAll call for %q", ev)
		}
		a, err := s.answerFor(c, parts[1])
		if err != nil {
			return err
		}
		c.ans <- a
	case "gastart":
		s.mu.Lock()
		h := s.gaTarget()
		if h == 0 || s.ga.running {
			s.mu.Unlock()
			return fmt.Errorf("harness: gastart not possible")
		}
		ctx, cancel := context.WithCancel(context.WithValue(context.Background(), vsubKey{}, vsubGAIdx))
		s.ga.started++
		s.ga.running, s.ga.height, s.ga.cancel, s.ga.failed, s.ga.last = true, h, cancel, "", ""
		s.ga.done = make(chan vsubGARes, 1)
		done := s.ga.done
		s.mu.Unlock()
		go func() {
			blobs, err := s.svc.GetAll(ctx, uint64(h), []libshare.Namespace{s.chain.ns[0]})
			done <- vsubGARes{blobs, err}
		}()
	case "read":
		if len(sb.ch) == 0 {
			return fmt.Errorf("harness: read with empty buffer")
		}
		s.readOne(sb)
	case "cancel":
		s.mu.Lock()
		sb.cancelled = true
		s.mu.Unlock()
		sb.cancel()
	case "fclose":
		s.mu.Lock()
		sb.fclosed = true
		s.mu.Unlock()
		close(sb.feed)
	case "stop":
		s.mu.Lock()
		s.markStopped()
		s.mu.Unlock()
		_ = s.svc.Stop(context.Background())
	case "start":
		s.mu.Lock()
		s.life++
		for _, o := range s.subs {
			if o.created && !s.stopped && !o.terminated() {
				o.swapped = true // Start on the running service
			}
			if o.created && s.stopped && o.stopSeen {
				o.restarted = true
			}
		}
		s.stopped = false
		s.mu.Unlock()
		if err := s.svc.Start(context.Background()); err != nil {
			s.fail("harness: Start: %v", err)
		}
	case "sub":
		if sb.created {
			return fmt.Errorf("harness: subscription %d exists", sb.idx)
		}
		s.subscribe(sb.idx)
	default:
		return fmt.Errorf("harness: unknown event %q", ev)
	}
	synctest.Wait()
	s.collectGetAll()
	s.judge()
	if s.trace {
		fmt.Printf("REPLAY-STEP %-12s -> %s\n", ev, s.snapshot())
	}
	return s.err
}

func (s *vsubSys) answerFor(c *vsubCall, kind string) (a vsubAns, err error) {
	s.mu.Lock()
	if kind != "ok" {
		s.noteFailure(c, kind)
	}
	if c.sub == vsubGAIdx {
		s.ga.last = kind
	} else if c.sub >= 0 && c.sub < len(s.subs) {
		sb := s.subs[c.sub]
		if sb.lastAns == nil {
			sb.lastAns = map[int]string{}
		}
		sb.lastAns[int(c.height)] = kind
	}
	s.mu.Unlock()
	switch kind {
	case "ok":
		if c.kind == "hg" {
			a.hdr = s.chain.blocks[c.height-1].hdr
		} else {
			a.nd = vsubCopyND(s.chain.blocks[c.height-1].nd[c.nsi])
		}
	case "fail":
		a.err = errors.New("verif: transient retrieval failure")
	case "nf":
		// the block's data could not be found by the getter (what the store getter and the
		// shrex getter report while nobody asked has the block)
		a.err = fmt.Errorf("verif: nobody has the block yet: %w", shwap.ErrNotFound)
	case "dl":
		// an inner, per-attempt timeout of the getter fired (cascade getter's split timeout,
		// shrex per-request timeout): the error is the Err() of an already expired CHILD of the
		// caller's context, while the caller's context itself is as alive as before
		child, cancel := context.WithTimeout(c.ctx, 0)
		<-child.Done()
		a.err = fmt.Errorf("verif: getter attempt timed out: %w", child.Err())
		cancel()
	case "cn":
		// an inner session / stream of the getter was cancelled: wraps context.Canceled while the
		// caller's context is alive
		a.err = fmt.Errorf("verif: getter session closed: %w", context.Canceled)
	case "ctx":
		a.err = c.ctx.Err()
	default:
		return a, fmt.Errorf("harness: bad answer %q", kind)
	}
	return a, nil
}

// vsubSameBlobs compares a result with the blobs the block was built from.
func vsubSameBlobs(got, ref []*Blob) string {
	if len(got) != len(ref) {
		return fmt.Sprintf("carries %d blobs, the block holds %d in that namespace", len(got), len(ref))
	}
	for i, b := range got {
		r := ref[i]
		if b == nil || b.Blob == nil || !b.Namespace().Equals(r.Namespace()) || !bytes.Equal(b.Data(), r.Data()) ||
			b.ShareVersion() != r.ShareVersion() || !bytes.Equal(b.Commitment, r.Commitment) {
			return fmt.Sprintf("blob %d differs from the block's blob", i)
		}
	}
	return ""
}

// vsubCause names the mechanism behind a wrong result: the kind of the last answer the caller's own
// retrieval of that height got if that was a failure (a failure answer is followed either by a
// retry or, wrongly, by the result); else the failure answers given to any retrieval of the same
// height and namespace (callers whose retrieval was coalesced with another one).
func vsubCause(last, set string) string {
	class := func(k string) string {
		switch {
		case strings.Contains(k, "nf"):
			return "after=getter-not-found-error"
		case strings.Contains(k, "dl") || strings.Contains(k, "cn"):
			return "after=getter-cancellation-class-error"
		case k != "":
			return "after=getter-error"
		}
		return "no-failure"
	}
	if last != "" && last != "ok" {
		return class(last)
	}
	return class(set)
}

// collectGetAll judges the concurrent GetAll once it has returned: without error it must carry
// exactly the block's blobs of the namespace; an error is accepted only if a failure answer was
// given to a retrieval of that (height, namespace) while it ran.
func (s *vsubSys) collectGetAll() {
	s.mu.Lock()
	defer s.mu.Unlock()
	ga := &s.ga
	if !ga.running {
		return
	}
	var r vsubGARes
	select {
	case r = <-ga.done:
	default:
		return
	}
	ga.running = false
	ga.cancel()
	if ga.pending != nil {
		s.failLocked("harness: GetAll returned while its collaborator call is parked")
		return
	}
	if r.err != nil {
		if ga.failed == "" {
			s.failLocked("C20/getall/error-without-failure: concurrent GetAll(height %d) failed although no retrieval of that height and namespace was answered with a failure: %v", ga.height, r.err)
			return
		}
		ga.errN++
		return
	}
	if d := vsubSameBlobs(r.blobs, s.chain.blocks[ga.height-1].ref[0]); d != "" {
		s.failLocked("C20/getall/wrong-blobs/%s: concurrent GetAll(height %d) returned without error but %s (failure answers given meanwhile: %q)",
			vsubCause(ga.last, ga.failed), ga.height, d, ga.failed)
		return
	}
	ga.okN++
	vsubRunStats.getAllsOK.Add(1)
}

// readOne takes one response from the channel as the consumer and judges it: the k-th response
// read must be the response for the k-th header of the feed and carry exactly that block's blobs
// of the subscribed namespace.
func (s *vsubSys) readOne(sb *vsubSub) {
	var resp *SubscriptionResponse
	var ok bool
	select {
	case resp, ok = <-sb.ch:
	default:
		return
	}
	if !ok {
		sb.closed = true
		return
	}
	want := sb.readN + 1
	sb.readN++
	if resp == nil {
		s.fail("C20/nil-response: subscription %d response #%d is nil", sb.idx, want)
		return
	}
	if want > len(s.feed) || want > sb.taken {
		s.fail("C20/extra-response: subscription %d emitted response #%d but took only %d headers", sb.idx, want, sb.taken)
		return
	}
	nth := want
	want = s.feed[nth-1] // the height of the nth header of the feed
	blk := s.chain.blocks[want-1]
	got := resp.Height
	switch {
	case got == uint64(want):
	case got < uint64(want):
		s.fail("C20/duplicate-or-reordered-height: subscription %d response #%d is for height %d, header #%d of the feed has height %d", sb.idx, nth, got, nth, want)
		return
	default:
		s.fail("C20/gap: subscription %d response #%d is for height %d, header #%d of the feed has height %d (header skipped)", sb.idx, nth, got, nth, want)
		return
	}
	if resp.Header == nil || resp.Header.Height != int64(want) || !bytes.Equal(resp.Header.DataHash, blk.hdr.DataHash) {
		s.fail("C20/wrong-header: subscription %d response for height %d carries a different header", sb.idx, want)
		return
	}
	nsi := s.cfg.nsOf(sb.idx)
	if d := vsubSameBlobs(resp.Blobs, blk.ref[nsi]); d != "" {
		s.mu.Lock()
		f := s.failed[nsi*1000+want]
		s.mu.Unlock()
		s.fail("C20/wrong-blobs/%s: subscription %d response for height %d %s (failure answers given to retrievals of this height and namespace: %q)",
			vsubCause(sb.lastAns[want], f), sb.idx, want, d, f)
		return
	}
	vsubRunStats.readsOK.Add(1)
}

// judge evaluates what can be judged without disturbing the subscription.
func (s *vsubSys) judge() {
	s.mu.Lock()
	defer s.mu.Unlock()
	if s.err != nil {
		return
	}
	for _, sb := range s.subs {
		emitted := sb.readN + len(sb.ch)
		inflight := 0
		if s.busy(sb) {
			inflight = 1
		}
		due := sb.taken - inflight
		if sb.overflowed {
			due = sb.taken - 1 // the header that found the buffer full gets no response
		}
		if emitted > due && sb.overflowed {
			s.failLocked("C20/not-closed/after=overflow: subscription %d emitted a response for the header that arrived while the subscriber was a full buffer of %d responses behind, instead of ending the stream",
				sb.idx, vsubBufCap)
			return
		}
		if emitted > due {
			s.failLocked("C20/extra-response: subscription %d has emitted %d responses for %d completed headers (duplicate or a response before the retrieval succeeded)",
				sb.idx, emitted, due)
			return
		}
		if sb.late > 1 {
			s.failLocked("C20/no-termination/after=%s: subscription %d started %d further retrieval attempts after %s (retrieval keeps failing, stream still open)",
				sb.cause(), sb.idx, sb.late, sb.cause())
			return
		}
	}
}

func (s *vsubSys) snapshot() string {
	s.mu.Lock()
	defer s.mu.Unlock()
	var b strings.Builder
	fmt.Fprintf(&b, "stopped=%v", s.stopped)
	if s.cfg.Lifecycle > 0 {
		fmt.Fprintf(&b, " life=%d", s.life)
	}
	for _, sb := range s.subs {
		if !sb.created {
			fmt.Fprintf(&b, " | sub%d absent", sb.idx)
			continue
		}
		if s.cfg.Lifecycle > 0 {
			fmt.Fprintf(&b, " | sub%d stopSeen=%v swapped=%v restarted=%v", sb.idx, sb.stopSeen, sb.swapped, sb.restarted)
		}
		p := "-"
		if sb.pending != nil {
			p = fmt.Sprintf("%s@%d/ctxdone=%v", sb.pending.kind, sb.pending.height, sb.pending.ctx.Err() != nil)
		}
		fmt.Fprintf(&b, " | sub%d taken=%d read=%d buf=%d pending=%s cancelled=%v fclosed=%v overflow=%v late=%d",
			sb.idx, sb.taken, sb.readN, len(sb.ch), p, sb.cancelled, sb.fclosed, sb.overflowed, sb.late)
		if s.joined(sb) {
			b.WriteString(" joined")
		}
	}
	if s.cfg.GetAlls > 0 {
		fmt.Fprintf(&b, " | getall started=%d running=%v height=%d parked=%v failed=%v ok=%d err=%d",
			s.ga.started, s.ga.running, s.ga.height, s.ga.pending != nil, s.ga.failed != "", s.ga.okN, s.ga.errN)
	}
	return b.String()
}

// Check takes the non-perturbing snapshot of the state.
func (s *vsubSys) Check() error {
	if s.err != nil {
		return s.err
	}
	s.judge()
	if s.err != nil {
		return s.err
	}
	s.snap = s.snapshot()
	s.snapOverlap = s.overlap()
	s.enabledSnap = s.enabledNow()
	return nil
}

// probe empties every response channel as the consumer (judging every response) and then looks
// whether the channel is closed. It disturbs the instance, so it is only used on an instance
// that is thrown away afterwards (BFS calls Fingerprint last, before the liveness drain).
func (s *vsubSys) probe() {
	for _, sb := range s.subs {
		for round := 0; round < 4; round++ {
			for len(sb.ch) > 0 && s.err == nil {
				s.readOne(sb)
			}
			synctest.Wait()
			if len(sb.ch) == 0 {
				break
			}
		}
		if s.err != nil {
			return
		}
		select {
		case resp, ok := <-sb.ch:
			if ok {
				_ = resp
				s.fail("harness: response appeared in a quiescent state")
				return
			}
			sb.closed = true
		default:
		}
	}
	s.mu.Lock()
	defer s.mu.Unlock()
	for _, sb := range s.subs {
		term := sb.terminated()
		if sb.closed && !term {
			s.failLocked("C20/closed-without-cause: subscription %d stream is closed although the subscriber did not cancel, the service runs, the feed is open and the subscriber was at most %d responses behind (took %d headers, read %d)",
				sb.idx, vsubBufCap-1, sb.taken, sb.readN)
			return
		}
		if term && !s.busy(sb) && !sb.closed {
			s.failLocked("C20/not-closed/after=%s: subscription %d stream is still open after %s although no retrieval is running (took %d headers, read %d)",
				sb.cause(), sb.idx, sb.cause(), sb.taken, sb.readN)
			return
		}
		inflight := 0
		if s.busy(sb) {
			inflight = 1
		}
		if !term && sb.readN < sb.taken-inflight {
			s.failLocked("C20/response-missing: subscription %d took %d headers, no retrieval is running, the stream is open, but only %d responses were emitted (height skipped)",
				sb.idx, sb.taken, sb.readN)
			return
		}
		if sb.closed && sb.pending != nil {
			s.failLocked("C20/closed-while-retrieving: subscription %d stream closed while its retrieval of height %d is still running", sb.idx, sb.pending.height)
			return
		}
	}
	if s.ga.running && s.ga.pending == nil && !s.gaJoined() {
		s.failLocked("C20/getall/hangs: concurrent GetAll(height %d) has not returned although no retrieval of that height and namespace is in flight", s.ga.height)
	}
}

// overlap: two callers are retrieving (or joined to a retrieval of) the same height and namespace.
func (s *vsubSys) overlap() bool {
	s.mu.Lock()
	defer s.mu.Unlock()
	type k struct{ h, ns int }
	seen := map[k]int{}
	for _, sb := range s.subs {
		if s.busy(sb) {
			seen[k{s.feed[sb.taken-1], s.cfg.nsOf(sb.idx)}]++
		}
	}
	if s.ga.running {
		seen[k{s.ga.height, 0}]++
	}
	for _, n := range seen {
		if n > 1 {
			return true
		}
	}
	return false
}

func (s *vsubSys) outcome(sb *vsubSub) string {
	switch {
	case !sb.created:
		return "absent"
	case sb.closed:
		return "closed/" + sb.cause()
	case s.busy(sb) && sb.terminated():
		return "terminating(retrieval running)/" + sb.cause()
	case s.busy(sb):
		return "open/retrieving"
	default:
		return "open/idle"
	}
}

func (s *vsubSys) Fingerprint() string {
	if !s.probed {
		if s.snap == "" {
			s.snap = s.snapshot()
			s.enabledSnap = s.enabledNow()
		}
		s.probed = true
		s.probe()
	}
	var b strings.Builder
	b.WriteString(s.snap)
	for _, sb := range s.subs {
		fmt.Fprintf(&b, " closed%d=%v", sb.idx, sb.closed)
	}
	if s.err != nil {
		// a state that fails its probe is reported by the drain; keep it apart from sound states
		b.WriteString(" probe-failed: " + s.err.Error())
	}
	return b.String()
}

// drain is the bounded-liveness continuation from a state: from now on every retrieval succeeds
// and the consumer reads at once. Every stream that has no reason to end must deliver every
// remaining header (in order, right blobs) and then end when the subscriber cancels; every stream
// that has a reason to end must be closed as soon as its running retrieval returns.
func (s *vsubSys) drain() error {
	if !s.probed {
		_ = s.Fingerprint()
	}
	if s.err != nil {
		return s.err
	}
	s.countOutcomes()
	limit := 4*(s.total()+2)*len(s.subs) + 16
	for it := 0; it < limit; it++ {
		progress := false
		if s.ga.pending != nil {
			_ = s.Apply("gans:ok")
			progress = true
		}
		for i, sb := range s.subs {
			if s.err != nil {
				return s.err
			}
			if sb.pending != nil {
				a := "ok"
				if sb.pending.ctx.Err() != nil {
					a = "ctx"
				}
				_ = s.Apply(fmt.Sprintf("ans:%d:%s", i, a))
				progress = true
				continue
			}
			if !sb.created && s.cfg.LateSubs && !s.stopped {
				// a stream opened now, on the running service, must work like any other
				_ = s.Apply(fmt.Sprintf("sub:%d", i))
				progress = true
				continue
			}
			if s.hdrEnabled(sb) && !sb.closed {
				_ = s.Apply(fmt.Sprintf("hdr:%d", i))
				progress = true
			}
		}
		if s.err != nil {
			return s.err
		}
		s.probe()
		if s.err != nil {
			return s.err
		}
		if !progress {
			break
		}
	}
	if s.ga.running {
		return fmt.Errorf("C20/getall/hangs: concurrent GetAll(height %d) has not returned in the fair continuation", s.ga.height)
	}
	for _, sb := range s.subs {
		if sb.pending != nil {
			return fmt.Errorf("C20/drain-no-progress: subscription %d still retrieves height %d after %d successful answers", sb.idx, sb.pending.height, limit)
		}
		if sb.created && !sb.terminated() && sb.readN != s.total() {
			return fmt.Errorf("C20/response-missing: subscription %d delivered %d of %d headers in the fair continuation", sb.idx, sb.readN, s.total())
		}
	}
	for i, sb := range s.subs {
		if sb.created && !sb.terminated() {
			_ = s.Apply(fmt.Sprintf("cancel:%d", i))
		}
	}
	if s.err != nil {
		return s.err
	}
	s.probe()
	if s.err == nil {
		vsubRunStats.drainsDone.Add(1)
	}
	return s.err
}

func (s *vsubSys) countOutcomes() {
	vsubRunStats.mu.Lock()
	defer vsubRunStats.mu.Unlock()
	if s.snapOverlap {
		vsubRunStats.overlaps.Add(1)
	}
	for _, sb := range s.subs {
		vsubRunStats.outcomes[s.outcome(sb)]++
		if sb.fclosed && sb.pending != nil && !sb.cancelled && !sb.stopSeen {
			vsubRunStats.feedCloseBusy++
		}
	}
}

// Close ends the instance so that the bubble can end: cancel everything, stop the service,
// answer whatever is still pending with the context's error.
func (s *vsubSys) Close() {
	saved := s.err
	for _, sb := range s.subs {
		if sb.cancel != nil {
			sb.cancel()
		}
	}
	if s.svc != nil && s.svc.cancel != nil {
		_ = s.svc.Stop(context.Background())
	}
	if s.ga.cancel != nil {
		s.ga.cancel()
	}
	for it := 0; it < 64; it++ {
		synctest.Wait()
		any := false
		s.mu.Lock()
		gc := s.ga.pending
		s.ga.pending = nil
		s.mu.Unlock()
		if gc != nil {
			any = true
			gc.ans <- vsubAns{err: context.Canceled}
		}
		for _, sb := range s.subs {
			s.mu.Lock()
			c := sb.pending
			sb.pending = nil
			s.mu.Unlock()
			if c != nil {
				any = true
				err := c.ctx.Err()
				if err == nil {
					err = context.Canceled
				}
				c.ans <- vsubAns{err: err}
			}
		}
		if !any {
			break
		}
	}
	synctest.Wait()
	s.err = saved
}

// ---------------------------------------------------------------- driver

func vsubSig(err error) string {
	msg := err.Error()
	if i := strings.Index(msg, ":"); i > 0 {
		return msg[:i]
	}
	return msg
}

type vsubReplay struct {
	Cfg     vsubCfg  `json:"cfg"`
	History []string `json:"history"`
}

// vsubRunHistory executes one history on a fresh instance inside a bubble, followed by the state
// probe and the liveness drain; it returns the violation (nil if none) and the final fingerprint.
func vsubRunHistory(t *testing.T, chain *vsubChain, cfg vsubCfg, hist []string, trace, skipDisabled bool) (verr error, fp string) {
	synctest.Test(t, func(*testing.T) {
		s := newVsubSys(cfg, chain)
		defer s.Close()
		s.trace = trace
		for _, ev := range hist {
			if skipDisabled {
				on := false
				for _, e := range s.enabledNow() {
					on = on || e == ev
				}
				if !on {
					continue
				}
			}
			if verr = s.Apply(ev); verr != nil {
				return
			}
		}
		if verr = s.Check(); verr != nil {
			return
		}
		fp = s.Fingerprint()
		s.trace = false
		verr = s.drain()
	})
	return verr, fp
}

func vsubWarmUp(t *testing.T, chain *vsubChain) {
	// once outside any bubble: lazily initialised globals (tracer, codecs, hashers) are created here
	blk := chain.blocks[0]
	g := vsubImmediateGetter{chain}
	svc := NewService(nil, g, func(_ context.Context, h uint64) (*header.ExtendedHeader, error) {
		return chain.blocks[h-1].hdr, nil
	}, nil)
	_ = svc.Start(context.Background())
	for nsi := 0; nsi < 2; nsi++ {
		got, err := svc.GetAll(context.Background(), blk.hdr.Height(), []libshare.Namespace{chain.ns[nsi]})
		if err != nil || len(got) != len(blk.ref[nsi]) {
			t.Fatalf("harness: warm-up GetAll ns%d: %d blobs, err %v", nsi, len(got), err)
		}
	}
	_ = svc.Stop(context.Background())
}

type vsubImmediateGetter struct{ c *vsubChain }

func (g vsubImmediateGetter) GetSamples(context.Context, *header.ExtendedHeader, []shwap.SampleCoords) ([]shwap.Sample, error) {
	panic("verif: unused")
}
func (g vsubImmediateGetter) GetEDS(context.Context, *header.ExtendedHeader) (*rsmt2d.ExtendedDataSquare, error) {
	panic("verif: unused")
}
func (g vsubImmediateGetter) GetRow(context.Context, *header.ExtendedHeader, int) (shwap.Row, error) {
	panic("verif: unused")
}
func (g vsubImmediateGetter) GetRangeNamespaceData(context.Context, *header.ExtendedHeader, int, int) (shwap.RangeNamespaceData, error) {
	panic("verif: unused")
}
func (g vsubImmediateGetter) GetNamespaceData(_ context.Context, h *header.ExtendedHeader, ns libshare.Namespace) (shwap.NamespaceData, error) {
	for i, n := range g.c.ns[:2] {
		if n.Equals(ns) {
			return vsubCopyND(g.c.blocks[h.Height()-1].nd[i]), nil
		}
	}
	return nil, errors.New("verif: unknown namespace")
}

func vsubConfigs(tier string) []vsubCfg {
	// ok; opaque error; block-not-found error; error of an expired child context (DeadlineExceeded)
	// and error wrapping context.Canceled, both while the caller's context is alive
	all := []string{"ok", "fail", "nf", "dl", "cn"}
	noNF := []string{"ok", "fail", "dl", "cn"}
	full := func(c vsubCfg) vsubCfg {
		c.Answers, c.Cancel, c.Stop, c.FClose, c.HdrStop = all, true, true, true, true
		return c
	}
	const whole = 200 // no depth cut: the search ends when the frontier is empty
	if tier == "quick" {
		return []vsubCfg{
			full(vsubCfg{Name: "single", Subs: 1, Headers: 5, Depth: whole}),
			full(vsubCfg{Name: "single-gappy-feed", Subs: 1, Headers: 4, Feed: "gappy", Depth: whole}),
			full(vsubCfg{Name: "overflow-14", Subs: 1, Prefill: 14, Headers: 4, Depth: whole}),
			full(vsubCfg{Name: "hdr-getter", Subs: 1, Headers: 3, HdrGetterBlocks: true, Depth: whole}),
			full(vsubCfg{Name: "two-subs", Subs: 2, Headers: 2, Depth: whole}),
			{Name: "two-subs-overflow", Subs: 2, Prefill: 15, Headers: 2, Answers: []string{"ok", "fail"}, Cancel: true, Stop: true, Depth: 7},
			// overlapping retrievals of the same (height, namespace)
			full(vsubCfg{Name: "same-namespace", Subs: 2, SameNS: true, Headers: 2, Depth: whole}),
			{Name: "sub-and-getall", Subs: 1, GetAlls: 2, Headers: 2, Answers: noNF, Cancel: true, Stop: true, FClose: true, Depth: whole},
			// lifecycle of the one service instance: Stop/Start in any state (stop twice, start twice,
			// restart), subscriptions opened by an event - before, between and after
			{Name: "lifecycle", Subs: 2, LateSubs: true, Lifecycle: 4, Headers: 2, Answers: []string{"ok", "fail"}, Cancel: true, Depth: 9},
		}
	}
	return []vsubCfg{
		full(vsubCfg{Name: "single", Subs: 1, Headers: 8, Depth: whole}),
		full(vsubCfg{Name: "single-gappy-feed", Subs: 1, Headers: 6, Feed: "gappy", Depth: whole}),
		full(vsubCfg{Name: "overflow-12", Subs: 1, Prefill: 12, Headers: 7, Depth: whole}),
		full(vsubCfg{Name: "overflow-14", Subs: 1, Prefill: 14, Headers: 6, Depth: whole}),
		full(vsubCfg{Name: "overflow-15", Subs: 1, Prefill: 15, Headers: 6, Depth: whole}),
		full(vsubCfg{Name: "hdr-getter", Subs: 1, Headers: 5, HdrGetterBlocks: true, Depth: whole}),
		full(vsubCfg{Name: "hdr-getter-overflow", Subs: 1, Prefill: 15, Headers: 3, HdrGetterBlocks: true, Depth: whole}),
		full(vsubCfg{Name: "two-subs", Subs: 2, Headers: 3, Depth: whole}),
		full(vsubCfg{Name: "two-subs-hdr-getter", Subs: 2, Headers: 2, HdrGetterBlocks: true, Depth: whole}),
		// overlapping retrievals of the same (height, namespace)
		full(vsubCfg{Name: "same-namespace", Subs: 2, SameNS: true, Headers: 3, Depth: whole}),
		full(vsubCfg{Name: "same-namespace-hdr-getter", Subs: 2, SameNS: true, Headers: 2, HdrGetterBlocks: true, Depth: whole}),
		{Name: "sub-and-getall", Subs: 1, GetAlls: 3, Headers: 3, Answers: noNF, Cancel: true, Stop: true, FClose: true, HdrStop: true, Depth: whole},
		{Name: "sub-and-getall-hdr-getter", Subs: 1, GetAlls: 2, Headers: 2, HdrGetterBlocks: true, Answers: noNF, Cancel: true, Stop: true, Depth: whole},
		{Name: "same-namespace-and-getall", Subs: 2, SameNS: true, GetAlls: 1, Headers: 2, Answers: noNF, Cancel: true, Stop: true, Depth: whole},
		{Name: "lifecycle", Subs: 2, LateSubs: true, Lifecycle: 4, Headers: 2, Answers: []string{"ok", "fail", "dl"}, Cancel: true, FClose: true, Depth: whole},
		{Name: "lifecycle-single-deep", Subs: 1, LateSubs: true, Lifecycle: 6, Headers: 3, Answers: all, Cancel: true, FClose: true, HdrStop: true, Depth: whole},
		// last: the largest run takes whatever budget is left
		full(vsubCfg{Name: "two-subs-overflow", Subs: 2, Prefill: 15, Headers: 3, Depth: 13}),
	}
}

func TestVerifC20(t *testing.T) {
	logging.SetAllLoggers(logging.LevelFatal)
	rep := vx.NewReport("C20", "model_checking")
	rep.Rule = "explicit-state BFS over environment-event histories of the real blob.Service.Subscribe (events per subscription: " +
		"header handed over by the feed, answer ok / opaque error / block-not-found error / error of an expired child context (DeadlineExceeded) / error wrapping context.Canceled (the last two while the caller's context is alive) / the caller's own ctx error to the pending share-getter (or header-getter) call, consumer reads one response, " +
		"subscriber cancels, feed closes, header+service-stop at once; global: service stop, start of a concurrent Service.GetAll for the height subscription 0 is retrieving or will retrieve next and answers to its calls); subscriptions on different namespaces and on the SAME namespace (overlapping retrievals of one height and namespace, answered in both orders); a state is distinct and non-trivial when its canonical " +
		"fingerprint (per subscription: headers taken, responses read, responses buffered, pending call and whether its context is done, cancelled/feed-closed/" +
		"overflow flags, late-attempt count, stream closed; service stopped) was not seen before. Every distinct state is probed (all buffered responses " +
		"judged against the reference blobs of the block, stream open/closed judged) and continued by a fair drain (all retrievals succeed, consumer reads at once)"
	rep.Assumptions = []string{
		"testing/synctest quiescence: after every event all goroutines of the instance are durably blocked, so at every select in Subscribe at most one case is ready (except header+stop, which is forced through the header case by handing the header over before stopping)",
		"the header feed is an unbuffered channel as in nodebuilder/header.Service.Subscribe; a header is handed over only when the subscription is waiting for one (a header waiting while a retrieval runs is equivalent to handing it over when the retrieval ends, except together with service stop = event hdrstop)",
		"a retrieval failure is any non-nil error of the share getter or header getter, including errors wrapping shwap.ErrNotFound (block data not found) and errors that wrap context.DeadlineExceeded / context.Canceled coming from an inner context of the getter while the caller's own context is alive; an absent namespace is reported by getters as empty data without error",
		"feed close while a retrieval runs is judged leniently: the stream must close once that retrieval has returned (retries are not counted)",
		"'promptly' = after cancel / service stop at most one further retrieval attempt starts, and the stream is closed in the first quiescent state in which no retrieval is running",
		"a subscription (or GetAll) that owes a result, has no collaborator call of its own in flight, while another retrieval of the same height and namespace is in flight, is treated as retrieving (an implementation may coalesce identical retrievals); it is judged as soon as that retrieval is answered",
		"the concurrent GetAll is never answered with the not-found error itself (that is the known finding C20/wrong-blobs/after=getter-not-found-error)",
		"block layouts are simple (blobs back to back); layout generality is property C11",
	}

	vsubChainOnce.Do(func() { vsubTheChain, vsubChainErr = vsubBuildChain(t) })
	if vsubChainErr != nil {
		rep.Infra("cannot build the chain: " + vsubChainErr.Error())
		t.Fatal(vsubChainErr)
	}
	chain := vsubTheChain
	vsubWarmUp(t, chain)

	if rp := os.Getenv("VERIF_REPLAY"); rp != "" {
		vsubReplayFile(t, rep, chain, rp)
		return
	}

	// determinism self-check: the same history twice gives the same observation
	{
		cfg := vsubCfg{Name: "selfcheck", Subs: 2, Headers: 3, Answers: []string{"ok", "fail"}, Cancel: true, Stop: true, FClose: true}
		h := []string{"hdr:0", "hdr:1", "ans:0:fail", "ans:1:ok", "ans:0:ok", "read:0", "hdr:0", "cancel:1", "ans:0:ok", "fclose:0"}
		e1, f1 := vsubRunHistory(t, chain, cfg, h, false, true)
		e2, f2 := vsubRunHistory(t, chain, cfg, h, false, true)
		if f1 != f2 || (e1 == nil) != (e2 == nil) {
			rep.Infra(fmt.Sprintf("NONDETERMINISM: same history, different observations: %q / %q (%v / %v)", f1, f2, e1, e2))
			t.Fatal("nondeterministic harness")
		}
		if e1 != nil && (strings.HasPrefix(e1.Error(), "harness") || strings.HasPrefix(e1.Error(), "DIVERGENCE")) {
			rep.Infra("self-check history fails: " + e1.Error())
			t.Fatal(e1)
		}
		rep.Set("determinism_selfcheck", map[string]any{"history": h, "fingerprint": f1, "identical": true})
	}

	cfgs := vsubConfigs(rep.Tier)
	deadline := rep.Deadline(70*time.Second, 16*time.Minute)
	exhaustive := true
	var mu sync.Mutex
	allEvents := map[string]int64{}
	sigCount := map[string]int{}
	for i, cfg := range cfgs {
		left := time.Until(deadline)
		if left <= 0 {
			exhaustive = false
			rep.Set(fmt.Sprintf("run_%02d", i), map[string]any{"cfg": cfg.String(), "skipped": "budget exhausted"})
			continue
		}
		runDeadline := time.Now().Add(left / time.Duration(len(cfgs)-i))
		cfg := cfg
		st := vx.BFS(vx.BFSOpts{
			MaxDepth: cfg.Depth,
			Deadline: runDeadline,
			Workers:  vx.Workers(),
			RunInstance: func(f func()) {
				synctest.Test(t, func(*testing.T) { f() })
			},
			Drain: func(s vx.Sys, hist []string) error { return s.(*vsubSys).drain() },
		}, func() vx.Sys { return newVsubSys(cfg, chain) }, func(hist []string, err error) {
			sig := vsubSig(err)
			mu.Lock()
			defer mu.Unlock()
			if strings.HasPrefix(sig, "harness") || strings.HasPrefix(sig, "DIVERGENCE") {
				rep.Infra(fmt.Sprintf("%v hist=%v cfg=%s", err, hist, cfg))
				return
			}
			sigCount[sig]++
			rep.Violation(sig, err.Error(), vsubReplay{Cfg: cfg, History: hist})
		})
		if st.Capped != "" {
			exhaustive = false
		}
		rep.Count(st.Replays, int64(st.States), int64(st.States), st.Transitions)
		for k, v := range st.EventCounts {
			allEvents[k] += v
		}
		rep.Set(fmt.Sprintf("run_%02d", i), map[string]any{
			"cfg": cfg.String(), "states": st.States, "transitions": st.Transitions, "depth_completed": st.DepthDone,
			"depth_bound": cfg.Depth, "frontier_emptied": st.Complete, "stopped_by_depth_bound": st.DepthCapped, "capped": st.Capped,
			"states_per_depth": st.PerDepth, "events_applied": st.EventsApplied, "violating_transitions": st.Violations,
		})
		for _, h := range st.SampleHist {
			if len(h) >= 4 {
				rep.AddSample(map[string]any{"cfg": cfg.String(), "history": h})
				break
			}
		}
		if len(st.SampleHist) > 0 {
			rep.AddSample(map[string]any{"cfg": cfg.String(), "history": st.SampleHist[len(st.SampleHist)-1]})
		}
	}
	rep.Set("event_class_counts", allEvents)
	vsubRunStats.mu.Lock()
	rep.Set("stream_outcomes_over_distinct_states", vsubRunStats.outcomes)
	rep.Set("distinct_stream_outcomes", len(vsubRunStats.outcomes))
	rep.Set("states_feed_closed_while_retrieving_judged_leniently", vsubRunStats.feedCloseBusy)
	vsubRunStats.mu.Unlock()
	rep.Set("positive_control_responses_accepted", vsubRunStats.readsOK.Load())
	rep.Set("positive_control_concurrent_getall_results_accepted", vsubRunStats.getAllsOK.Load())
	rep.Set("distinct_states_with_overlapping_retrievals_of_same_height_and_namespace", vsubRunStats.overlaps.Load())
	rep.Set("positive_control_fair_continuations_completed", vsubRunStats.drainsDone.Load())
	rep.Set("violating_transitions_by_signature", sigCount)
	rep.Set("explanation", "per configuration: exhaustive up to depth_bound events after the scripted prefix; frontier_emptied=true means the whole reachable state space of that configuration was covered (no depth cut)")
	rep.SetExhaustive(exhaustive)
	if vsubRunStats.readsOK.Load() == 0 || vsubRunStats.drainsDone.Load() == 0 {
		rep.Infra("positive controls did not fire: no response was ever accepted / no fair continuation completed")
	}
	if rep.Finish() > 0 {
		t.Fail()
	}
}

func vsubReplayFile(t *testing.T, rep *vx.Report, chain *vsubChain, path string) {
	b, err := os.ReadFile(path)
	if err != nil {
		t.Fatalf("replay: %v", err)
	}
	var doc struct {
		Replay vsubReplay `json:"replay"`
	}
	if err := json.Unmarshal(b, &doc); err != nil {
		t.Fatalf("replay: %v", err)
	}
	var verr error
	for i := 0; i < 5; i++ {
		e, _ := vsubRunHistory(t, chain, doc.Replay.Cfg, doc.Replay.History, i == 0, false)
		if i > 0 && (e == nil) != (verr == nil) {
			rep.Infra(fmt.Sprintf("NONDETERMINISM: replay %d gave %v, earlier %v", i, e, verr))
			t.Fatalf("NONDETERMINISM: replay %d gave %v, earlier %v", i, e, verr)
		}
		verr = e
	}
	rep.Count(5, 2, 1, int64(len(doc.Replay.History)))
	rep.AddSample(doc.Replay)
	if verr != nil {
		fmt.Printf("REPLAY-RESULT violation reproduced 5/5: %v\n", verr)
		rep.Violation(vsubSig(verr), verr.Error(), doc.Replay)
	} else {
		fmt.Println("REPLAY-RESULT no violation")
	}
	rep.SetExhaustive(false)
	rep.Finish()
}
